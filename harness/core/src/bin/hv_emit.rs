//! hv_emit PROGRAM.hyeong LEVEL — prints compile::build_source(...) wired exactly as src/app/build.rs.
//! Exit 3 + "OPTIMIZE-ERROR <msg>" on stderr when optimize::optimize returns Err (no source exists then).
use hyeong::core::state::UnOptState;
use hyeong::core::{compile, optimize, parse};
use std::io::Write;

fn main() {
    let a: Vec<String> = std::env::args().collect();
    let code = std::fs::read_to_string(&a[1]).expect("program file");
    let level: u8 = a[2].parse().unwrap();
    let un = parse::parse(code);
    let src = if level >= 1 {
        match optimize::optimize(un, level) {
            Ok((s, c)) => compile::build_source(s, &c, level),
            Err(e) => {
                eprintln!("OPTIMIZE-ERROR {}", e.get_msg());
                std::process::exit(3);
            }
        }
    } else {
        compile::build_source(UnOptState::new(), &un, level)
    };
    let so = std::io::stdout();
    let mut so = so.lock();
    so.write_all(src.as_bytes()).unwrap();
    so.flush().unwrap();
}
