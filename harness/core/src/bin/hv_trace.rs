//! hv_trace MODE PROGRAM.hyeong TRACE_FILE [MAX_STEPS]
//!
//! Runs the real interpreter core on the program with the process's real stdin and appends one JSON
//! line per observation point to TRACE_FILE (unbuffered, so that a process::exit inside the library
//! loses nothing):
//!   MODE one : pre-load the program, call execute::execute_one in a loop (the debugger's path),
//!              one record after EVERY command.
//!   MODE inc : call execute::execute once per parsed command on a persistent state (the path of
//!              `hyeong run -O0` and of the interactive front end), one record per top-level command.
//! Records: {"k":"step","loc":..,"next":..,"state":"<Debug of UnOptState>"}  {"k":"out","s":..}
//!          {"k":"err","s":..}  {"k":"error","msg":..}  {"k":"end"}  {"k":"budget"}
//! Program output is captured with the library's own CustomWriter; the harness flushes it after every
//! record so the chunks arrive in order, and the library's own flush before an exit through stack 1/2
//! lands in the same trace.
use hv_core::json_str;
use hyeong::core::state::{State, UnOptState};
use hyeong::core::{execute, parse};
use hyeong::util::io::CustomWriter;
use std::fs::{File, OpenOptions};
use std::io::Write;

fn log(f: &File, s: String) {
    let mut f = f;
    f.write_all(s.as_bytes()).unwrap();
    f.write_all(b"\n").unwrap();
}

fn main() {
    let a: Vec<String> = std::env::args().collect();
    let mode = a[1].as_str();
    let text = std::fs::read_to_string(&a[2]).expect("program file");
    let trace = OpenOptions::new().create(true).append(true).open(&a[3]).unwrap();
    let max_steps: usize = a.get(4).map(|x| x.parse().unwrap()).unwrap_or(1_000_000);

    let code = parse::parse(text);
    let tr = &trace;
    let mut out = CustomWriter::new(|x: String| {
        if !x.is_empty() {
            log(tr, format!("{{\"k\":\"out\",\"s\":{}}}", json_str(&x)));
        }
        Ok(())
    });
    let mut err = CustomWriter::new(|x: String| {
        if !x.is_empty() {
            log(tr, format!("{{\"k\":\"err\",\"s\":{}}}", json_str(&x)));
        }
        Ok(())
    });
    let mut stdin = std::io::stdin();
    let mut state = UnOptState::new();
    let mut steps = 0usize;

    if mode == "one" {
        for c in &code {
            state.push_code(c.clone());
        }
        let mut loc = 0usize;
        while loc < code.len() {
            steps += 1;
            if steps > max_steps {
                log(tr, String::from("{\"k\":\"budget\"}"));
                std::process::exit(3);
            }
            match execute::execute_one(&mut stdin, &mut out, &mut err, state, loc) {
                Ok((s, next)) => {
                    state = s;
                    out.flush().unwrap();
                    err.flush().unwrap();
                    log(
                        tr,
                        format!(
                            "{{\"k\":\"step\",\"loc\":{},\"next\":{},\"state\":{}}}",
                            loc,
                            next,
                            json_str(&format!("{:?}", state))
                        ),
                    );
                    loc = next;
                }
                Err(e) => {
                    out.flush().unwrap();
                    err.flush().unwrap();
                    log(tr, format!("{{\"k\":\"error\",\"msg\":{}}}", json_str(&e.get_msg())));
                    std::process::exit(1);
                }
            }
        }
    } else {
        for (i, c) in code.iter().enumerate() {
            match execute::execute(&mut stdin, &mut out, &mut err, state, c) {
                Ok(s) => {
                    state = s;
                    out.flush().unwrap();
                    err.flush().unwrap();
                    log(
                        tr,
                        format!(
                            "{{\"k\":\"step\",\"loc\":{},\"next\":{},\"state\":{}}}",
                            i,
                            i + 1,
                            json_str(&format!("{:?}", state))
                        ),
                    );
                }
                Err(e) => {
                    out.flush().unwrap();
                    err.flush().unwrap();
                    log(tr, format!("{{\"k\":\"error\",\"msg\":{}}}", json_str(&e.get_msg())));
                    std::process::exit(1);
                }
            }
        }
    }
    out.flush().unwrap();
    err.flush().unwrap();
    log(tr, String::from("{\"k\":\"end\"}"));
}
