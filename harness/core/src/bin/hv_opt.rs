//! hv_opt PROGRAM.hyeong LEVEL — purity child for "optimising never performs the program's effects".
//! Calls parse + optimize::optimize and ONLY THEN writes `OPT-DONE ...` to stdout, a dump of the
//! returned state, the line `ECHO-BEGIN`, and finally everything still unread on its stdin.
//! The parent runs it under strace with a sentinel on stdin: any read(0)/write(1|2) before the marker,
//! a missing marker, a damaged sentinel or a non-zero exit is attributable to optimize().
use hyeong::core::code::Code;
use hyeong::core::state::State;
use hyeong::core::{optimize, parse};
use std::io::{Read, Write};

fn main() {
    let a: Vec<String> = std::env::args().collect();
    let code = std::fs::read_to_string(&a[1]).expect("program file");
    let level: u8 = a[2].parse().unwrap();
    let un = parse::parse(code);
    let n = un.len();
    let r = optimize::optimize(un, level);
    let so = std::io::stdout();
    let mut so = so.lock();
    match r {
        Ok((mut state, residual)) => {
            writeln!(so, "OPT-DONE ok=true commands={} residual={}", n, residual.len()).unwrap();
            writeln!(so, "CUR {}", state.current_stack()).unwrap();
            writeln!(so, "LATEST {:?}", state.get_latest_loc()).unwrap();
            let mut pts = state.get_all_point();
            pts.sort();
            writeln!(so, "POINTS {:?}", pts).unwrap();
            for i in state.get_all_stack_index() {
                if !state.get_stack(i).is_empty() {
                    writeln!(so, "STACK {} {:?}", i, state.get_stack(i)).unwrap();
                }
            }
            for c in residual.iter().take(200) {
                writeln!(
                    so,
                    "RES {} {} {} {:?}",
                    c.get_type(),
                    c.get_hangul_count(),
                    c.get_dot_count(),
                    c.get_area()
                )
                .unwrap();
            }
        }
        Err(e) => {
            writeln!(so, "OPT-DONE ok=false commands={} msg={:?}", n, e.get_msg()).unwrap();
        }
    }
    writeln!(so, "ECHO-BEGIN").unwrap();
    so.flush().unwrap();
    let mut rest = Vec::new();
    std::io::stdin().read_to_end(&mut rest).unwrap();
    so.write_all(&rest).unwrap();
    so.flush().unwrap();
}
