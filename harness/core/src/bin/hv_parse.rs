//! hv_parse — batch dump of parse::parse. One escaped record per input line (\\n \\r \\\\), one output
//! line per record: commands joined by ';', each "type,syllables,dots,DebugArea,DisplayArea,line,col,raw",
//! or "PANIC" when parse panicked on that record.
use hv_core::unescape_record;
use hyeong::core::code::Code;
use hyeong::core::parse;
use std::io::{BufRead, Write};

fn main() {
    std::panic::set_hook(Box::new(|_| {}));
    let stdin = std::io::stdin();
    let stdout = std::io::stdout();
    let mut w = std::io::BufWriter::new(stdout.lock());
    for line in stdin.lock().lines() {
        let rec = unescape_record(&line.expect("utf-8"));
        let r = std::panic::catch_unwind(|| {
            let v = parse::parse(rec);
            let mut parts = Vec::with_capacity(v.len());
            for c in &v {
                parts.push(format!(
                    "{},{},{},{:?},{},{},{},{}",
                    c.get_type(),
                    c.get_hangul_count(),
                    c.get_dot_count(),
                    c.get_area(),
                    c.get_area(),
                    c.get_location().0,
                    c.get_location().1,
                    c.get_raw()
                ));
            }
            parts.join(";")
        });
        match r {
            Ok(s) => writeln!(w, "{}", s).unwrap(),
            Err(_) => writeln!(w, "PANIC").unwrap(),
        }
    }
    w.flush().unwrap();
}
