//! Shared helpers for the hv_* harness binaries (no code under test lives here).

/// Minimal JSON string escaping (control characters, quote, backslash); everything else is raw UTF-8.
pub fn json_str(s: &str) -> String {
    let mut o = String::with_capacity(s.len() + 2);
    o.push('"');
    for c in s.chars() {
        match c {
            '"' => o.push_str("\\\""),
            '\\' => o.push_str("\\\\"),
            '\n' => o.push_str("\\n"),
            '\r' => o.push_str("\\r"),
            '\t' => o.push_str("\\t"),
            c if (c as u32) < 0x20 || c == '\u{7f}' || c == '\u{2028}' || c == '\u{2029}' => {
                o.push_str(&format!("\\u{:04x}", c as u32))
            }
            c if (c as u32) > 0xffff => {
                let v = c as u32 - 0x10000;
                o.push_str(&format!("\\u{:04x}\\u{:04x}", 0xd800 + (v >> 10), 0xdc00 + (v & 0x3ff)))
            }
            c => o.push(c),
        }
    }
    o.push('"');
    o
}

/// Decode the line-oriented record escaping used by the batch harnesses: \\n, \\r, \\\\.
pub fn unescape_record(s: &str) -> String {
    let mut o = String::with_capacity(s.len());
    let mut it = s.chars();
    while let Some(c) = it.next() {
        if c == '\\' {
            match it.next() {
                Some('n') => o.push('\n'),
                Some('r') => o.push('\r'),
                Some('\\') => o.push('\\'),
                Some(x) => {
                    o.push('\\');
                    o.push(x)
                }
                None => o.push('\\'),
            }
        } else {
            o.push(c);
        }
    }
    o
}
