//! hv_num — drives the public API of hyeong::number (BigNum, Num) from operation scripts.
//!
//! One case per input line; a case is a space-separated RPN program over a typed value stack.
//! One output line per case: the renderings produced by `out`, separated by TAB, or `PANIC|msg`.
//! The oracle (Python int / Fraction) lives in /verif/hv; this binary only executes and reports.
//!
//! Push tokens
//!   B+<hex,hex,..>  B-<hex,..>   BigNum::from_vec(limbs little-endian) (+ minus())
//!   I<dec> isize    U<dec> usize    S<text> string ('~' stands for a space)
//! BigNum ops (operands popped right-to-left):
//!   badd bsub bmul bdiv brem bgcd bneg beq bcmp blt ble bgt bge bne  baddas bsubas bmulas bdivas bremas  bminus
//!   bnew(I) bispos biszero btoint btostr:<base> bfromstr:<base>(S) bfromstring(S) bclone
//! Num ops:
//!   nfrombig(B B) nnew(I U) nfromnum(I) nzero none nnan nadd nmul nneg nminus nflip naddas nmulas
//!   nfloor nispos nisnan nfromstr(S) ntostr neq ncmp nclone nsetcopy
//! Stack ops: dup swap over drop out
//! Registers (object histories: the SAME object is observed and mutated repeatedly, never cloned or re-created):
//!   sto        pop a value into a new register (index = number of registers so far)
//!   @<k>       push a handle to register k; pure operations borrow the register, in-place operations
//!              (b*as, bminus, n*as, nminus, nflip, bsetcopy, nsetcopy) mutate it and push the handle back;
//!              `out` renders the register without consuming it
//!   bsetcopy nsetcopy   (target source): target.set_copy(&source)
use hyeong::number::big_number::BigNum;
use hyeong::number::num::Num;
use std::cmp::Ordering;
use std::io::{BufRead, Write};
use std::panic::{catch_unwind, AssertUnwindSafe};

#[derive(Clone)]
enum V {
    B(BigNum),
    N(Num),
    I(isize),
    U(usize),
    S(String),
    Bool(bool),
    Ord(Option<Ordering>),
    Err(String),
    R(usize),
}

fn render(v: &V) -> String {
    match v {
        V::B(b) => format!("B|{}|{}|{}", b, b.is_pos() as u8, b.is_zero() as u8),
        V::N(n) => format!("N|{}|{}|{}", n, n.is_pos() as u8, n.is_nan() as u8),
        V::I(i) => format!("i|{}", i),
        V::U(u) => format!("u|{}", u),
        V::S(s) => format!("s|{}", s),
        V::Bool(b) => format!("b|{}", *b as u8),
        V::Ord(o) => format!(
            "o|{}",
            match o {
                Some(Ordering::Less) => "L",
                Some(Ordering::Equal) => "E",
                Some(Ordering::Greater) => "G",
                None => "N",
            }
        ),
        V::Err(e) => format!("e|{}", e),
        V::R(k) => format!("r|{}", k),
    }
}

fn parse_big(tok: &str) -> BigNum {
    let neg = tok.as_bytes()[0] == b'-';
    let limbs: Vec<u32> = tok[1..]
        .split(',')
        .map(|x| u32::from_str_radix(x, 16).expect("limb"))
        .collect();
    let mut b = BigNum::from_vec(limbs);
    if neg {
        b.minus();
    }
    b
}

struct Vm {
    st: Vec<V>,
    out: Vec<String>,
    regs: Vec<V>,
}

impl Vm {
    fn pop(&mut self) -> V {
        self.st.pop().expect("value stack underflow")
    }
    fn rb<'a>(&'a self, v: &'a V) -> &'a BigNum {
        match v {
            V::B(b) => b,
            V::R(k) => match &self.regs[*k] {
                V::B(b) => b,
                _ => panic!("HARNESS: register does not hold a BigNum"),
            },
            V::Err(e) => panic!("library call returned Err({}) where a BigNum was required", e),
            _ => panic!("HARNESS: expected BigNum"),
        }
    }
    fn rn<'a>(&'a self, v: &'a V) -> &'a Num {
        match v {
            V::N(n) => n,
            V::R(k) => match &self.regs[*k] {
                V::N(n) => n,
                _ => panic!("HARNESS: register does not hold a Num"),
            },
            _ => panic!("HARNESS: expected Num"),
        }
    }
    /// pure binary operation on BigNums (operands may be register handles: borrowed, not consumed)
    fn pure_b2(&mut self, f: impl FnOnce(&BigNum, &BigNum) -> V) {
        let b = self.pop();
        let a = self.pop();
        let r = f(self.rb(&a), self.rb(&b));
        self.st.push(r);
    }
    fn pure_b1(&mut self, f: impl FnOnce(&BigNum) -> V) {
        let a = self.pop();
        let r = f(self.rb(&a));
        self.st.push(r);
    }
    fn pure_n2(&mut self, f: impl FnOnce(&Num, &Num) -> V) {
        let b = self.pop();
        let a = self.pop();
        let r = f(self.rn(&a), self.rn(&b));
        self.st.push(r);
    }
    fn pure_n1(&mut self, f: impl FnOnce(&Num) -> V) {
        let a = self.pop();
        let r = f(self.rn(&a));
        self.st.push(r);
    }
    /// in-place operation: the target (first operand) is mutated; a register target stays in its register
    fn mut_b2(&mut self, f: impl FnOnce(&mut BigNum, &BigNum)) {
        let b = self.pop();
        let a = self.pop();
        match a {
            V::R(k) => {
                if let V::R(j) = b {
                    if j == k {
                        panic!("HARNESS: aliasing target and source");
                    }
                }
                let mut x = match std::mem::replace(&mut self.regs[k], V::Bool(false)) {
                    V::B(x) => x,
                    _ => panic!("HARNESS: register does not hold a BigNum"),
                };
                f(&mut x, self.rb(&b));
                self.regs[k] = V::B(x);
                self.st.push(V::R(k));
            }
            V::B(mut x) => {
                f(&mut x, self.rb(&b));
                self.st.push(V::B(x));
            }
            V::Err(e) => panic!("library call returned Err({}) where a BigNum was required", e),
            _ => panic!("HARNESS: expected BigNum"),
        }
    }
    fn mut_b1(&mut self, f: impl FnOnce(&mut BigNum)) {
        let a = self.pop();
        match a {
            V::R(k) => {
                match &mut self.regs[k] {
                    V::B(x) => f(x),
                    _ => panic!("HARNESS: register does not hold a BigNum"),
                }
                self.st.push(V::R(k));
            }
            V::B(mut x) => {
                f(&mut x);
                self.st.push(V::B(x));
            }
            V::Err(e) => panic!("library call returned Err({}) where a BigNum was required", e),
            _ => panic!("HARNESS: expected BigNum"),
        }
    }
    fn mut_n2(&mut self, f: impl FnOnce(&mut Num, &Num)) {
        let b = self.pop();
        let a = self.pop();
        match a {
            V::R(k) => {
                if let V::R(j) = b {
                    if j == k {
                        panic!("HARNESS: aliasing target and source");
                    }
                }
                let mut x = match std::mem::replace(&mut self.regs[k], V::Bool(false)) {
                    V::N(x) => x,
                    _ => panic!("HARNESS: register does not hold a Num"),
                };
                f(&mut x, self.rn(&b));
                self.regs[k] = V::N(x);
                self.st.push(V::R(k));
            }
            V::N(mut x) => {
                f(&mut x, self.rn(&b));
                self.st.push(V::N(x));
            }
            _ => panic!("HARNESS: expected Num"),
        }
    }
    fn mut_n1(&mut self, f: impl FnOnce(&mut Num)) {
        let a = self.pop();
        match a {
            V::R(k) => {
                match &mut self.regs[k] {
                    V::N(x) => f(x),
                    _ => panic!("HARNESS: register does not hold a Num"),
                }
                self.st.push(V::R(k));
            }
            V::N(mut x) => {
                f(&mut x);
                self.st.push(V::N(x));
            }
            _ => panic!("HARNESS: expected Num"),
        }
    }
    fn b(&mut self) -> BigNum {
        match self.pop() {
            V::B(b) => b,
            V::Err(e) => panic!("library call returned Err({}) where a BigNum was required", e),
            _ => panic!("HARNESS: expected BigNum"),
        }
    }
    #[allow(dead_code)]
    fn n(&mut self) -> Num {
        match self.pop() {
            V::N(n) => n,
            _ => panic!("HARNESS: expected Num"),
        }
    }
    fn i(&mut self) -> isize {
        match self.pop() {
            V::I(i) => i,
            _ => panic!("HARNESS: expected isize"),
        }
    }
    fn u(&mut self) -> usize {
        match self.pop() {
            V::U(u) => u,
            _ => panic!("HARNESS: expected usize"),
        }
    }
    fn s(&mut self) -> String {
        match self.pop() {
            V::S(s) => s,
            _ => panic!("HARNESS: expected string"),
        }
    }

    fn exec(&mut self, tok: &str) {
        if let Some(rest) = tok.strip_prefix('B') {
            if rest.starts_with('+') || rest.starts_with('-') {
                self.st.push(V::B(parse_big(rest)));
                return;
            }
        }
        if let Some(rest) = tok.strip_prefix('I') {
            if let Ok(i) = rest.parse::<isize>() {
                self.st.push(V::I(i));
                return;
            }
        }
        if let Some(rest) = tok.strip_prefix('U') {
            if let Ok(u) = rest.parse::<usize>() {
                self.st.push(V::U(u));
                return;
            }
        }
        if let Some(rest) = tok.strip_prefix('@') {
            let k: usize = rest.parse().expect("register index");
            assert!(k < self.regs.len(), "HARNESS: no such register");
            self.st.push(V::R(k));
            return;
        }
        if let Some(rest) = tok.strip_prefix('S') {
            self.st.push(V::S(rest.replace('~', " ")));
            return;
        }
        if let Some(base) = tok.strip_prefix("btostr:") {
            let base: usize = base.parse().unwrap();
            self.pure_b1(|a| match a.to_string_base(base) {
                Ok(s) => V::S(s),
                Err(e) => V::Err(format!("{:?}", e)),
            });
            return;
        }
        if let Some(base) = tok.strip_prefix("bfromstr:") {
            let base: usize = base.parse().unwrap();
            let s = self.s();
            self.st.push(match BigNum::from_string_base(s, base) {
                Ok(b) => V::B(b),
                Err(e) => V::Err(format!("{:?}", e)),
            });
            return;
        }
        match tok {
            // ---- BigNum
            "badd" => self.pure_b2(|a, b| V::B(a + b)),
            "bsub" => self.pure_b2(|a, b| V::B(a - b)),
            "bmul" => self.pure_b2(|a, b| V::B(a * b)),
            "bdiv" => self.pure_b2(|a, b| V::B(a / b)),
            "brem" => self.pure_b2(|a, b| V::B(a % b)),
            "bgcd" => self.pure_b2(|a, b| V::B(BigNum::gcd(a, b))),
            "bneg" => self.pure_b1(|a| V::B(-a)),
            "bminus" => self.mut_b1(|a| a.minus()),
            "beq" => self.pure_b2(|a, b| V::Bool(a == b)),
            "bcmp" => self.pure_b2(|a, b| V::Ord(a.partial_cmp(b))),
            "blt" => self.pure_b2(|a, b| V::Bool(a < b)),
            "ble" => self.pure_b2(|a, b| V::Bool(a <= b)),
            "bgt" => self.pure_b2(|a, b| V::Bool(a > b)),
            "bge" => self.pure_b2(|a, b| V::Bool(a >= b)),
            "bne" => self.pure_b2(|a, b| V::Bool(a != b)),
            "baddas" => self.mut_b2(|a, b| *a += b),
            "bsubas" => self.mut_b2(|a, b| *a -= b),
            "bmulas" => self.mut_b2(|a, b| *a *= b),
            "bdivas" => self.mut_b2(|a, b| *a /= b),
            "bremas" => self.mut_b2(|a, b| *a %= b),
            "bnew" => {
                let i = self.i();
                self.st.push(V::B(BigNum::new(i)));
            }
            "bispos" => self.pure_b1(|a| V::Bool(a.is_pos())),
            "biszero" => self.pure_b1(|a| V::Bool(a.is_zero())),
            "btoint" => self.pure_b1(|a| V::U(a.to_int() as usize)),
            "bfromstring" => {
                let s = self.s();
                self.st.push(match BigNum::from_string(s) {
                    Ok(b) => V::B(b),
                    Err(e) => V::Err(format!("{:?}", e)),
                });
            }
            "bclone" => self.pure_b1(|a| {
                let mut c = BigNum::zero();
                c.set_copy(a);
                V::B(c)
            }),
            // ---- Num
            "nfrombig" => {
                let q = self.b();
                let p = self.b();
                self.st.push(V::N(Num::from_big_num(p, q)));
            }
            "nnew" => {
                let d = self.u();
                let u = self.i();
                self.st.push(V::N(Num::new(u, d)));
            }
            "nfromnum" => {
                let i = self.i();
                self.st.push(V::N(Num::from_num(i)));
            }
            "nzero" => self.st.push(V::N(Num::zero())),
            "none" => self.st.push(V::N(Num::one())),
            "nnan" => self.st.push(V::N(Num::nan())),
            "nadd" => self.pure_n2(|a, b| V::N(a + b)),
            "nmul" => self.pure_n2(|a, b| V::N(a * b)),
            "nneg" => self.pure_n1(|a| V::N(-a)),
            "nminus" => self.mut_n1(|a| a.minus()),
            "nflip" => self.mut_n1(|a| a.flip()),
            "naddas" => self.mut_n2(|a, b| *a += b),
            "nmulas" => self.mut_n2(|a, b| *a *= b),
            "nfloor" => self.pure_n1(|a| V::B(a.floor())),
            "nispos" => self.pure_n1(|a| V::Bool(a.is_pos())),
            "nisnan" => self.pure_n1(|a| V::Bool(a.is_nan())),
            "nfromstr" => {
                let s = self.s();
                self.st.push(V::N(Num::from_string(s)));
            }
            "ntostr" => self.pure_n1(|a| V::S(a.to_string())),
            "neq" => self.pure_n2(|a, b| V::Bool(a == b)),
            "ncmp" => self.pure_n2(|a, b| V::Ord(a.partial_cmp(b))),
            "nlt" => self.pure_n2(|a, b| V::Bool(a < b)),
            "nle" => self.pure_n2(|a, b| V::Bool(a <= b)),
            "ngt" => self.pure_n2(|a, b| V::Bool(a > b)),
            "nge" => self.pure_n2(|a, b| V::Bool(a >= b)),
            "nne" => self.pure_n2(|a, b| V::Bool(a != b)),
            "nclone" => self.pure_n1(|a| {
                let mut c = Num::zero();
                c.set_copy(a);
                V::N(c)
            }),
            // ---- stack
            "dup" => {
                let a = self.pop();
                self.st.push(a.clone());
                self.st.push(a);
            }
            "swap" => {
                let b = self.pop();
                let a = self.pop();
                self.st.push(b);
                self.st.push(a);
            }
            "over" => {
                let b = self.pop();
                let a = self.pop();
                self.st.push(a.clone());
                self.st.push(b);
                self.st.push(a);
            }
            "drop" => {
                self.pop();
            }
            "out" => {
                let a = self.pop();
                let text = match &a {
                    V::R(k) => render(&self.regs[*k]),
                    _ => render(&a),
                };
                self.out.push(text);
            }
            "sto" => {
                let a = self.pop();
                self.regs.push(a);
            }
            "bsetcopy" => self.mut_b2(|a, b| a.set_copy(b)),
            "nsetcopy" => self.mut_n2(|a, b| a.set_copy(b)),
            other => panic!("HARNESS: unknown token {:?}", other),
        }
    }
}

fn main() {
    std::panic::set_hook(Box::new(|_| {}));
    let stdin = std::io::stdin();
    let stdout = std::io::stdout();
    let mut w = std::io::BufWriter::new(stdout.lock());
    for line in stdin.lock().lines() {
        let line = line.expect("utf-8 input");
        let mut vm = Vm {
            st: Vec::new(),
            out: Vec::new(),
            regs: Vec::new(),
        };
        let r = catch_unwind(AssertUnwindSafe(|| {
            for tok in line.split(' ') {
                if !tok.is_empty() {
                    vm.exec(tok);
                }
            }
        }));
        match r {
            Ok(()) => writeln!(w, "{}", vm.out.join("\t")).unwrap(),
            Err(e) => {
                let msg = if let Some(s) = e.downcast_ref::<String>() {
                    s.clone()
                } else if let Some(s) = e.downcast_ref::<&str>() {
                    s.to_string()
                } else {
                    String::from("?")
                };
                writeln!(w, "{}\tPANIC|{}", vm.out.join("\t"), msg.replace('\n', " ")).unwrap()
            }
        }
    }
    w.flush().unwrap();
}
