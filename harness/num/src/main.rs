//! hv_num — drives the public API of hyeong::number (BigNum, Num) from operation scripts.
//!
//! One case per input line; a case is a space-separated RPN program over a typed value stack.
//! One output line per case: the renderings produced by `out`, separated by TAB, or `PANIC|msg`.
//! The oracle (Python int / Fraction) lives in /verif/hv; this binary only executes and reports.
//!
//! Push tokens
//!   B+<hex,hex,..>  B-<hex,..>   BigNum::from_vec(limbs little-endian) (+ minus())
//!   I<dec> isize    U<dec> usize    S<text> string ('~' stands for a space)
//! BigNum ops (operands popped right-to-left):
//!   badd bsub bmul bdiv brem bgcd bneg beq bcmp  baddas bsubas bmulas bdivas bremas  bminus
//!   bnew(I) bispos biszero btoint btostr:<base> bfromstr:<base>(S) bfromstring(S) bclone
//! Num ops:
//!   nfrombig(B B) nnew(I U) nfromnum(I) nzero none nnan nadd nmul nneg nminus nflip naddas nmulas
//!   nfloor nispos nisnan nfromstr(S) ntostr neq ncmp nclone nsetcopy
//! Stack ops: dup swap over drop out
use hyeong::number::big_number::BigNum;
use hyeong::number::num::Num;
use std::cmp::Ordering;
use std::io::{BufRead, Write};
use std::panic::{catch_unwind, AssertUnwindSafe};

#[derive(Clone)]
enum V {
    B(BigNum),
    N(Num),
    I(isize),
    U(usize),
    S(String),
    Bool(bool),
    Ord(Option<Ordering>),
    Err(String),
}

fn render(v: &V) -> String {
    match v {
        V::B(b) => format!("B|{}|{}|{}", b, b.is_pos() as u8, b.is_zero() as u8),
        V::N(n) => format!("N|{}|{}|{}", n, n.is_pos() as u8, n.is_nan() as u8),
        V::I(i) => format!("i|{}", i),
        V::U(u) => format!("u|{}", u),
        V::S(s) => format!("s|{}", s),
        V::Bool(b) => format!("b|{}", *b as u8),
        V::Ord(o) => format!(
            "o|{}",
            match o {
                Some(Ordering::Less) => "L",
                Some(Ordering::Equal) => "E",
                Some(Ordering::Greater) => "G",
                None => "N",
            }
        ),
        V::Err(e) => format!("e|{}", e),
    }
}

fn parse_big(tok: &str) -> BigNum {
    let neg = tok.as_bytes()[0] == b'-';
    let limbs: Vec<u32> = tok[1..]
        .split(',')
        .map(|x| u32::from_str_radix(x, 16).expect("limb"))
        .collect();
    let mut b = BigNum::from_vec(limbs);
    if neg {
        b.minus();
    }
    b
}

struct Vm {
    st: Vec<V>,
    out: Vec<String>,
}

impl Vm {
    fn pop(&mut self) -> V {
        self.st.pop().expect("value stack underflow")
    }
    fn b(&mut self) -> BigNum {
        match self.pop() {
            V::B(b) => b,
            V::Err(e) => panic!("library call returned Err({}) where a BigNum was required", e),
            _ => panic!("HARNESS: expected BigNum"),
        }
    }
    fn n(&mut self) -> Num {
        match self.pop() {
            V::N(n) => n,
            _ => panic!("HARNESS: expected Num"),
        }
    }
    fn i(&mut self) -> isize {
        match self.pop() {
            V::I(i) => i,
            _ => panic!("HARNESS: expected isize"),
        }
    }
    fn u(&mut self) -> usize {
        match self.pop() {
            V::U(u) => u,
            _ => panic!("HARNESS: expected usize"),
        }
    }
    fn s(&mut self) -> String {
        match self.pop() {
            V::S(s) => s,
            _ => panic!("HARNESS: expected string"),
        }
    }

    fn exec(&mut self, tok: &str) {
        if let Some(rest) = tok.strip_prefix('B') {
            if rest.starts_with('+') || rest.starts_with('-') {
                self.st.push(V::B(parse_big(rest)));
                return;
            }
        }
        if let Some(rest) = tok.strip_prefix('I') {
            if let Ok(i) = rest.parse::<isize>() {
                self.st.push(V::I(i));
                return;
            }
        }
        if let Some(rest) = tok.strip_prefix('U') {
            if let Ok(u) = rest.parse::<usize>() {
                self.st.push(V::U(u));
                return;
            }
        }
        if let Some(rest) = tok.strip_prefix('S') {
            self.st.push(V::S(rest.replace('~', " ")));
            return;
        }
        if let Some(base) = tok.strip_prefix("btostr:") {
            let base: usize = base.parse().unwrap();
            let a = self.b();
            self.st.push(match a.to_string_base(base) {
                Ok(s) => V::S(s),
                Err(e) => V::Err(format!("{:?}", e)),
            });
            return;
        }
        if let Some(base) = tok.strip_prefix("bfromstr:") {
            let base: usize = base.parse().unwrap();
            let s = self.s();
            self.st.push(match BigNum::from_string_base(s, base) {
                Ok(b) => V::B(b),
                Err(e) => V::Err(format!("{:?}", e)),
            });
            return;
        }
        match tok {
            // ---- BigNum
            "badd" => {
                let b = self.b();
                let a = self.b();
                self.st.push(V::B(&a + &b));
            }
            "bsub" => {
                let b = self.b();
                let a = self.b();
                self.st.push(V::B(&a - &b));
            }
            "bmul" => {
                let b = self.b();
                let a = self.b();
                self.st.push(V::B(&a * &b));
            }
            "bdiv" => {
                let b = self.b();
                let a = self.b();
                self.st.push(V::B(&a / &b));
            }
            "brem" => {
                let b = self.b();
                let a = self.b();
                self.st.push(V::B(&a % &b));
            }
            "bgcd" => {
                let b = self.b();
                let a = self.b();
                self.st.push(V::B(BigNum::gcd(&a, &b)));
            }
            "bneg" => {
                let a = self.b();
                self.st.push(V::B(-&a));
            }
            "bminus" => {
                let mut a = self.b();
                a.minus();
                self.st.push(V::B(a));
            }
            "beq" => {
                let b = self.b();
                let a = self.b();
                self.st.push(V::Bool(a == b));
            }
            "bcmp" => {
                let b = self.b();
                let a = self.b();
                self.st.push(V::Ord(a.partial_cmp(&b)));
            }
            "baddas" => {
                let b = self.b();
                let mut a = self.b();
                a += &b;
                self.st.push(V::B(a));
            }
            "bsubas" => {
                let b = self.b();
                let mut a = self.b();
                a -= &b;
                self.st.push(V::B(a));
            }
            "bmulas" => {
                let b = self.b();
                let mut a = self.b();
                a *= &b;
                self.st.push(V::B(a));
            }
            "bdivas" => {
                let b = self.b();
                let mut a = self.b();
                a /= &b;
                self.st.push(V::B(a));
            }
            "bremas" => {
                let b = self.b();
                let mut a = self.b();
                a %= &b;
                self.st.push(V::B(a));
            }
            "bnew" => {
                let i = self.i();
                self.st.push(V::B(BigNum::new(i)));
            }
            "bispos" => {
                let a = self.b();
                self.st.push(V::Bool(a.is_pos()));
            }
            "biszero" => {
                let a = self.b();
                self.st.push(V::Bool(a.is_zero()));
            }
            "btoint" => {
                let a = self.b();
                self.st.push(V::U(a.to_int() as usize));
            }
            "bfromstring" => {
                let s = self.s();
                self.st.push(match BigNum::from_string(s) {
                    Ok(b) => V::B(b),
                    Err(e) => V::Err(format!("{:?}", e)),
                });
            }
            "bclone" => {
                let a = self.b();
                let mut c = BigNum::zero();
                c.set_copy(&a);
                self.st.push(V::B(c));
            }
            // ---- Num
            "nfrombig" => {
                let q = self.b();
                let p = self.b();
                self.st.push(V::N(Num::from_big_num(p, q)));
            }
            "nnew" => {
                let d = self.u();
                let u = self.i();
                self.st.push(V::N(Num::new(u, d)));
            }
            "nfromnum" => {
                let i = self.i();
                self.st.push(V::N(Num::from_num(i)));
            }
            "nzero" => self.st.push(V::N(Num::zero())),
            "none" => self.st.push(V::N(Num::one())),
            "nnan" => self.st.push(V::N(Num::nan())),
            "nadd" => {
                let b = self.n();
                let a = self.n();
                self.st.push(V::N(&a + &b));
            }
            "nmul" => {
                let b = self.n();
                let a = self.n();
                self.st.push(V::N(&a * &b));
            }
            "nneg" => {
                let a = self.n();
                self.st.push(V::N(-&a));
            }
            "nminus" => {
                let mut a = self.n();
                a.minus();
                self.st.push(V::N(a));
            }
            "nflip" => {
                let mut a = self.n();
                a.flip();
                self.st.push(V::N(a));
            }
            "naddas" => {
                let b = self.n();
                let mut a = self.n();
                a += &b;
                self.st.push(V::N(a));
            }
            "nmulas" => {
                let b = self.n();
                let mut a = self.n();
                a *= &b;
                self.st.push(V::N(a));
            }
            "nfloor" => {
                let a = self.n();
                self.st.push(V::B(a.floor()));
            }
            "nispos" => {
                let a = self.n();
                self.st.push(V::Bool(a.is_pos()));
            }
            "nisnan" => {
                let a = self.n();
                self.st.push(V::Bool(a.is_nan()));
            }
            "nfromstr" => {
                let s = self.s();
                self.st.push(V::N(Num::from_string(s)));
            }
            "ntostr" => {
                let a = self.n();
                self.st.push(V::S(a.to_string()));
            }
            "neq" => {
                let b = self.n();
                let a = self.n();
                self.st.push(V::Bool(a == b));
            }
            "ncmp" => {
                let b = self.n();
                let a = self.n();
                self.st.push(V::Ord(a.partial_cmp(&b)));
            }
            "nclone" => {
                let a = self.n();
                let mut c = Num::zero();
                c.set_copy(&a);
                self.st.push(V::N(c));
            }
            // ---- stack
            "dup" => {
                let a = self.pop();
                self.st.push(a.clone());
                self.st.push(a);
            }
            "swap" => {
                let b = self.pop();
                let a = self.pop();
                self.st.push(b);
                self.st.push(a);
            }
            "over" => {
                let b = self.pop();
                let a = self.pop();
                self.st.push(a.clone());
                self.st.push(b);
                self.st.push(a);
            }
            "drop" => {
                self.pop();
            }
            "out" => {
                let a = self.pop();
                self.out.push(render(&a));
            }
            other => panic!("HARNESS: unknown token {:?}", other),
        }
    }
}

fn main() {
    std::panic::set_hook(Box::new(|_| {}));
    let stdin = std::io::stdin();
    let stdout = std::io::stdout();
    let mut w = std::io::BufWriter::new(stdout.lock());
    for line in stdin.lock().lines() {
        let line = line.expect("utf-8 input");
        let mut vm = Vm {
            st: Vec::new(),
            out: Vec::new(),
        };
        let r = catch_unwind(AssertUnwindSafe(|| {
            for tok in line.split(' ') {
                if !tok.is_empty() {
                    vm.exec(tok);
                }
            }
        }));
        match r {
            Ok(()) => writeln!(w, "{}", vm.out.join("\t")).unwrap(),
            Err(e) => {
                let msg = if let Some(s) = e.downcast_ref::<String>() {
                    s.clone()
                } else if let Some(s) = e.downcast_ref::<&str>() {
                    s.to_string()
                } else {
                    String::from("?")
                };
                writeln!(w, "{}\tPANIC|{}", vm.out.join("\t"), msg.replace('\n', " ")).unwrap()
            }
        }
    }
    w.flush().unwrap();
}
