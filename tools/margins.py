#!/usr/bin/env python3
"""margins.py FROM TO [checks] — run quick checks at several seeds and report, per observation minimum,
the smallest observed/required ratio (a thin margin means a possible spurious INCONCLUSIVE exit)."""
import json, os, subprocess, sys
ROOT = os.path.dirname(os.path.dirname(os.path.abspath(__file__)))
a, b = int(sys.argv[1]), int(sys.argv[2])
ids = sys.argv[3].split(',') if len(sys.argv) > 3 else [c['property_id'] for c in json.load(open(os.path.join(ROOT, 'MANIFEST.json')))['checks']]
worst = {}
for s in range(a, b + 1):
    for cid in ids:
        env = dict(os.environ, VERIF_SEED=str(s))
        p = subprocess.run(['python3', '-m', 'hv.run', cid, '--tier', 'quick'], cwd=ROOT, env=env, stdout=subprocess.PIPE, stderr=subprocess.STDOUT)
        if p.returncode != 0:
            print('seed', s, cid, 'rc', p.returncode, p.stdout.decode()[-300:])
        ev = json.load(open(os.path.join(ROOT, 'evidence', cid + '.json')))
        for k, v in ev['coverage'].get('observation_minimums', {}).items():
            r = v['observed'] / max(1, v['required'])
            key = (cid, k)
            if key not in worst or r < worst[key][0]:
                worst[key] = (r, v['observed'], v['required'], s)
for (cid, k), (r, o, q, s) in sorted(worst.items(), key=lambda kv: kv[1][0]):
    print('%-4s %-55s min ratio %6.1f  (observed %d / required %d at seed %d)' % (cid, k, r, o, q, s))
