#!/usr/bin/env python3
"""benign_check.py — apply each property-PRESERVING patch in mutants/benign/ to /repo (one at a time, always undone)
and run the checks it could disturb: every one of them must stay silent (exit 0).  Development tool."""
import glob, os, subprocess, sys
ROOT = '/verif'; REPO = '/repo'
WHICH = {'b-reword-diagnostics': 'C01 C02 C03 C11 C12 C13', 'b-jump-budget-50': 'C02 C03 C10', 'b-jump-budget-300': 'C02 C03 C10',
         'b-chatter': 'C11 C12', 'b-private-slots-for-all': 'C02 C03', 'b-emitted-layout': 'C03 C07 C14',
         'b-state-hides-empty-stacks': 'C01 C07 C11 C12'}
def sh(cmd, cwd=None):
    p = subprocess.run(cmd, shell=True, cwd=cwd, stdout=subprocess.PIPE, stderr=subprocess.STDOUT)
    return p.returncode, p.stdout.decode('utf-8', 'replace')
rc, st = sh('git status --short', REPO)
if st.strip():
    print('refusing: /repo not clean'); sys.exit(2)
bad = 0
for f in sorted(glob.glob(os.path.join(ROOT, 'mutants', 'benign', '*.patch'))):
    name = os.path.basename(f)[:-6]
    rc, out = sh('git apply %s' % f, REPO)
    if rc != 0:
        print('SKIP', name, out); continue
    try:
        for c in WHICH.get(name, 'C01 C02 C03').split():
            rc, out = sh('python3 -m hv.run %s --tier quick' % c, ROOT)
            last = [l for l in out.strip().split('\n') if l][-1]
            print('%-32s %s exit=%d %s' % (name, c, rc, last[:100]))
            if rc != 0:
                bad += 1
    finally:
        sh('git checkout -- .', REPO)
print('benign patches: %d alarms' % bad)
sys.exit(1 if bad else 0)
