#!/usr/bin/env python3
"""eval_seeded.py ID [--checks C01,C02|all] [--tier quick]

Confirms a seeded change delivered by a sub-agent in /tmp/seed/<ID>-out/ (patch.diff, demo.sh, NOTES.md)
in a scratch worktree of /repo under /tmp/seedverify/<ID> (clean: demo passes; patched: still compiles,
baseline tests pass, demo fails), stores it as /verif/seeded/<ID>/ and runs the registered checks against
it by applying the patch to /repo and undoing it straight afterwards.  Nothing is committed to /repo."""
import json
import os
import shutil
import subprocess
import sys
import time

ROOT = '/verif'
REPO = '/repo'


def sh(cmd, cwd=None, timeout=3600, env=None):
    e = dict(os.environ)
    e['CARGO_NET_OFFLINE'] = 'true'
    if env:
        e.update(env)
    p = subprocess.run(cmd, shell=True, cwd=cwd, stdout=subprocess.PIPE, stderr=subprocess.STDOUT, timeout=timeout, env=e)
    return p.returncode, p.stdout.decode('utf-8', 'replace')


def baseline(wt):
    tests = ' '.join('--test ' + f[:-3] for f in sorted(os.listdir(os.path.join(wt, 'tests'))) if f.endswith('.rs') and f != 'build_test.rs')
    rc, out = sh('cargo test --offline --no-fail-fast %s 2>&1 | grep -E "^test result|FAILED|^error"' % tests, cwd=wt)
    rc2, out2 = sh('cargo test --offline --doc 2>&1 | grep -E "^test result|FAILED|^error"', cwd=wt)
    passed = sum(int(l.split('ok. ')[1].split(' passed')[0]) for l in (out + out2).split('\n') if l.startswith('test result: ok.'))
    failed = 'FAILED' in out + out2 or any(l.startswith('error') for l in (out + out2).split('\n'))
    return passed, failed, out + out2


def main():
    sid = sys.argv[1]
    checks = None
    tier = 'quick'
    a = sys.argv[2:]
    while a:
        if a[0] == '--checks':
            checks = a[1]
            a = a[2:]
        elif a[0] == '--tier':
            tier = a[1]
            a = a[2:]
        else:
            a = a[1:]
    src = '/tmp/seed/%s-out' % sid
    dst = os.path.join(ROOT, 'seeded', sid)
    if not os.path.exists(os.path.join(src, 'patch.diff')) and os.path.exists(os.path.join(dst, 'patch.diff')):
        src = dst
    patch = os.path.join(src, 'patch.diff')
    demo = os.path.join(src, 'demo.sh')
    prop = sid[:3]
    meta = {'id': sid, 'breaks_property': prop, 'confirmed': False}
    rc, st = sh('git status --short', cwd=REPO)
    if st.strip():
        print('refusing: /repo working tree is not clean')
        return 2
    if '--skip-confirm' not in sys.argv:
        wt = '/tmp/seedverify/%s' % sid
        sh('git -C %s worktree remove --force %s' % (REPO, wt))
        shutil.rmtree(wt, ignore_errors=True)
        os.makedirs('/tmp/seedverify', exist_ok=True)
        rc, out = sh('git -C %s worktree add --detach %s HEAD' % (REPO, wt))
        if rc != 0:
            print(out)
            return 2
        try:
            shutil.copy(os.path.join(REPO, 'Cargo.lock'), wt)
            rc_clean, out_clean = sh('bash %s %s' % (demo, wt), timeout=1800)
            rc, out = sh('git apply %s' % patch, cwd=wt)
            if rc != 0:
                print('patch does not apply:', out)
                return 2
            rcb, outb = sh('cargo build --offline 2>&1 | tail -3', cwd=wt)
            passed, failed, tout = baseline(wt)
            rc_mut, out_mut = sh('bash %s %s' % (demo, wt), timeout=1800)
            meta.update({'demo_exit_on_clean_tree': rc_clean, 'demo_exit_with_change': rc_mut, 'baseline_tests_passed_with_change': passed,
                         'baseline_failed_with_change': failed})
            meta['confirmed'] = (rc_clean == 0 and rc_mut != 0 and passed >= 203 and not failed)
            print('confirm: demo clean=%d mutated=%d tests passed=%d failed=%s -> %s' % (rc_clean, rc_mut, passed, failed, meta['confirmed']))
            if not meta['confirmed']:
                print(out_clean[-500:], '\n----\n', out_mut[-500:], '\n----\n', tout[-800:])
        finally:
            sh('git -C %s worktree remove --force %s' % (REPO, wt))
            shutil.rmtree(wt, ignore_errors=True)
        if not meta['confirmed']:
            return 1
        os.makedirs(dst, exist_ok=True)
        if src != dst:
            for f in ('patch.diff', 'demo.sh', 'NOTES.md'):
                if os.path.exists(os.path.join(src, f)):
                    shutil.copy(os.path.join(src, f), dst)
    else:
        old = json.load(open(os.path.join(dst, 'meta.json')))
        meta.update({k: old[k] for k in old if k not in ('results',)})
    # ---- run checks against it
    man = json.load(open(os.path.join(ROOT, 'MANIFEST.json')))
    ids = [c['property_id'] for c in man['checks']]
    if checks and checks != 'all':
        ids = [c for c in checks.split(',')]
    elif not checks:
        ids = [prop]
    results = {}
    rc, out = sh('git apply %s' % os.path.join(dst, 'patch.diff'), cwd=REPO)
    if rc != 0:
        print('patch does not apply to /repo:', out)
        return 2
    try:
        for cid in ids:
            t = time.time()
            rc, out = sh('python3 -m hv.run %s --tier %s' % (cid, tier), cwd=ROOT, timeout=7200)
            last = [l for l in out.strip().split('\n') if l][-1] if out.strip() else ''
            results[cid] = {'exit': rc, 'caught': rc == 1, 'summary': last[:200], 'seconds': round(time.time() - t, 1)}
            print('  %s exit=%d %s (%.0fs)' % (cid, rc, last[:120], time.time() - t))
    finally:
        sh('git checkout -- .', cwd=REPO)
    rc, st = sh('git status --short', cwd=REPO)
    assert not st.strip(), 'repo not clean after undo!'
    old_results = {}
    mp = os.path.join(dst, 'meta.json')
    if os.path.exists(mp):
        old_results = json.load(open(mp)).get('results', {})
    old_results.update({'%s@%s' % (k, tier): v for k, v in results.items()})
    meta['results'] = old_results
    notes = os.path.join(dst, 'NOTES.md')
    if os.path.exists(notes):
        meta['needs_to_manifest'] = open(notes, encoding='utf-8', errors='replace').read()[:1500]
    meta['what_was_run'] = 'tools/eval_seeded.py: scratch worktree confirm (demo on clean tree, apply, cargo build, 104 tests + 99 doctests, demo), then `git -C /repo apply`, `python3 -m hv.run <check> --tier <tier>`, `git -C /repo checkout -- .`'
    json.dump(meta, open(mp, 'w'), indent=1, ensure_ascii=False)
    return 0


if __name__ == '__main__':
    sys.exit(main())
