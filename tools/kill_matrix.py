#!/usr/bin/env python3
"""kill_matrix.py [--tier quick] [--only SUBSTR] — apply every patch in /verif/mutants and /verif/seeded/*/patch.diff
to /repo (one at a time, always undone), run the owning checks, and write notes/kill_matrix.json + notes/kill_matrix.md.
Development tool (not registered in MANIFEST); nothing is committed to /repo."""
import glob
import json
import os
import re
import subprocess
import sys
import time

ROOT = '/verif'
REPO = '/repo'
OWN = {'rev01': ['C05'], 'rev02': ['C06', 'C01'], 'rev03': ['C07', 'C01', 'C14'], 'rev04': ['C04', 'C08'], 'rev05': ['C02'],
       'rev06': ['C02'], 'rev07': ['C02'], 'rev08': ['C03'], 'rev09': ['C03'], 'rev10': ['C11'], 'rev11': ['C03']}


def sh(cmd, cwd=None, timeout=7200):
    p = subprocess.run(cmd, shell=True, cwd=cwd, stdout=subprocess.PIPE, stderr=subprocess.STDOUT, timeout=timeout)
    return p.returncode, p.stdout.decode('utf-8', 'replace')


def main():
    tier = 'quick'
    only = None
    a = sys.argv[1:]
    while a:
        if a[0] == '--tier':
            tier = a[1]
            a = a[2:]
        elif a[0] == '--only':
            only = a[1]
            a = a[2:]
        else:
            a = a[1:]
    items = []
    for f in sorted(glob.glob(os.path.join(ROOT, 'mutants', '*.patch'))):
        name = os.path.basename(f)[:-6]
        m = re.match(r'm-(c\d\d)-', name)
        checks = [m.group(1).upper()] if m else OWN.get(name[:5], [])
        items.append((name, f, checks, 'hand-written' if m else 'reverse of a fix: commit'))
    for d in sorted(glob.glob(os.path.join(ROOT, 'seeded', '*'))):
        sid = os.path.basename(d)
        items.append(('seeded/' + sid, os.path.join(d, 'patch.diff'), [sid[:3]], 'seeded by an independent sub-agent'))
    if only:
        items = [it for it in items if only in it[0]]
    rc, st = sh('git status --short', cwd=REPO)
    if st.strip():
        print('refusing: /repo not clean')
        return 2
    out_json = os.path.join(ROOT, 'notes', 'kill_matrix.json')
    results = json.load(open(out_json)) if os.path.exists(out_json) else {}
    for name, patch, checks, origin in items:
        rc, out = sh('git apply %s' % patch, cwd=REPO)
        if rc != 0:
            print('SKIP %s: patch does not apply' % name)
            results[name] = {'origin': origin, 'error': 'patch does not apply'}
            continue
        try:
            r = {}
            for c in checks:
                t = time.time()
                rc, out = sh('python3 -m hv.run %s --tier %s' % (c, tier), cwd=ROOT)
                last = [l for l in out.strip().split('\n') if l][-1] if out.strip() else ''
                nsig = re.search(r'(\d+) distinct violation', last)
                r[c] = {'exit': rc, 'killed': rc == 1, 'signatures': int(nsig.group(1)) if nsig else 0,
                        'seconds': round(time.time() - t, 1), 'last_line': last[:160]}
                print('%-60s %s exit=%d %s' % (name[:60], c, rc, last[:90]))
            results[name] = {'origin': origin, 'tier': tier, 'checks': r}
        finally:
            sh('git checkout -- .', cwd=REPO)
        json.dump(results, open(out_json, 'w'), indent=1)
    rc, st = sh('git status --short', cwd=REPO)
    assert not st.strip()
    # markdown
    lines = ['| change | origin | check: result (distinct witnesses) |', '|---|---|---|']
    for name in sorted(results):
        r = results[name]
        if 'checks' not in r:
            continue
        cells = ', '.join('%s: %s (%d)' % (c, 'CAUGHT' if v['killed'] else ('inconclusive' if v['exit'] == 2 else 'missed'), v['signatures'])
                          for c, v in r['checks'].items())
        lines.append('| %s | %s | %s |' % (name, r['origin'], cells))
    open(os.path.join(ROOT, 'notes', 'kill_matrix.md'), 'w').write('\n'.join(lines) + '\n')
    return 0


if __name__ == '__main__':
    sys.exit(main())
