#!/usr/bin/env python3
"""Regenerates /verif/MANIFEST.json from the table below (kept in one place so it stays valid)."""
import json, os
ROOT = os.path.dirname(os.path.dirname(os.path.abspath(__file__)))
TRUST = 'Trusted base: the Python reference models in /verif/hv (refinterp.py, refparse.py, Python int/Fraction), the harness binaries in /verif/harness, pipes/exit statuses as delivered by the OS. Held = held on the executions this run produced (counts and feature histograms are in the evidence file), nothing more.'
CHECKS = {
 'C01': ('lock-step trace monitor: hv_trace event log of the real interpreter core (state after every command) and `run -O0` observables vs an independent reference interpreter',
         'Runtime monitoring of generated programs x inputs: every intermediate state (selected stack, all stacks, output so far, next command) and the final ending of the real interpreter are compared with an executable definition across thousands of executions covering jumps, ♡ returns, stdin, exits, NaN/fraction compares and encoding errors.', '6 C01'),
 'C02': ('differential run monitor: `hyeong run -O1/-O2` observables vs the `-O0` run of the same program and stdin, workloads aimed at the 100-jump budget, roll-back, renumbering, mid-program input and exits',
         'Runtime monitoring of the real binary at all three levels on generated programs x inputs; the reference interpreter admits cases (predicts termination) and classifies which optimiser mechanisms each execution exercised; non-terminating programs are checked for prefix-compatible output.', '6 C02'),
 'C04': ('reference-model monitor over recorded parse results: hv_parse dump of parse::parse on generated Unicode texts vs an independent tokenise-and-split reference parser; `hyeong check` exit/row count',
         'Runtime monitoring of the real parser on tens of thousands of generated texts (biased alphabet, noise before the first command, stray start syllables, long area chains, big counts): every field of every command compared with an independent parser; crashes are violations.', '6 C04'),
 'C05': ('reference-model monitor on API results: BigNum operation scripts (fresh operands, very long operands, and object histories over registers with in-place operations and aliasing) executed by hv_num (overflow-checking build) vs Python int; Display, is_pos, is_zero and == against from_vec expectations',
         'Runtime monitoring of the real BigNum code on generated operand pairs at carry/borrow boundaries, all sign combinations and lengths, including in-place variants, gcd and the isize constructor; thorough adds a release-build slice and a Miri slice.', '6 C05'),
 'C06': ('reference-model + invariant monitor: Num operation sequences and object histories (the same objects rendered, compared and changed in place repeatedly) executed by hv_num vs Fraction with absorbing NaN, canonical-form monitor on every printed result, structural equality vs alternative constructions',
         'Runtime monitoring of the real Num code over random operation sequences (depth <= 6): exact value, canonical form, NaN absorption, floor and sign test observed on every result.', '6 C06'),
 'C07': ('reference-model monitor: Num::partial_cmp/== on generated ordered pairs (a quarter of them nearly equal: continued-fraction neighbours) and inside object histories vs Fraction order, plus hv_trace step records of programs whose ?/! areas sit on plain pushes (branch taken = numeric order)',
         'Runtime monitoring of comparisons at API level (all sign/size/NaN combinations) and at program level (which branch real executions take against counts 1..200 with integer, fractional, negative and NaN operands).', '6 C07'),
 'C08': ('round-trip monitor: noisy renderer -> real parser identity, re-parse of concatenated reported raw texts, and a reader of the `hyeong check` listing that must reproduce every command',
         'Runtime monitoring of the real parser/check front end on generated command lists rendered with noise in every place the grammar ignores; three oracles (identity, idempotent re-parse, listing determines command) over thousands of lists.', '6 C08'),
 'C09': ('round-trip monitor: to_string_base/from_string_base for bases 2..36 and Num Display/from_string executed by hv_num vs Python base conversion and identity',
         'Runtime monitoring of the real conversion code on generated integers (multi-limb, both signs, powers of the base +-1) in all 35 bases and on canonical rationals and NaN.', '6 C09'),
 'C03': ('differential run monitor on compiled programs: build_source text (hv_emit) -> rustc -> executable observables vs `hyeong run -O0`, levels 0-2, workloads aimed at the level-2 hand-over (resume index, pending ♡ target, labels, hostile output characters) and dispatch-tree sizes',
         'Runtime monitoring of real executables produced from the emitted source, unmodified, against the interpreter on the same program and stdin; the reference interpreter admits cases and classifies the hand-over shapes exercised.', '6 C03'),
 'C10': ('syscall-level monitor: strace read/write log of a child that calls optimize::optimize with a sentinel on stdin; marker ordering, sentinel conservation, exit status, CPU rlimit as logical work bound',
         'Runtime monitoring at the OS boundary: any read of stdin, write to stdout/stderr, process exit or unbounded work inside optimize() is observed directly on programs that read first thing, exit immediately, pop stacks 0-2 in every command form, or loop forever with small values.', '6 C10'),
 'C11': ('history monitor: semantic events (step rows, output chunks, state dumps, breakpoint lists, exit status) extracted from `hyeong debug` transcripts vs a model of the debugger driving the reference interpreter over generated command scripts',
         'Runtime monitoring of real debugger sessions: arbitrary interleavings of next/previous/run/state/break with breakpoints at and beyond the program length; every displayed state, every output chunk (exactly once, in order) and absence of crashes are checked.', '6 C11'),
 'C12': ('history monitor: per-line output chunks and exit status of interactive `hyeong` sessions vs the whole-program reference run cut at the same command boundaries; plus hv_trace command-by-command execution vs the reference',
         'Runtime monitoring of real interactive sessions over random splittings into lines (with clear/help/blank lines, jumps back into earlier lines, exits), and of the library mechanism behind it without output-alphabet restriction.', '6 C12'),
 'C13': ('outcome monitor: exit status / signal / stderr of `hyeong run -O{0,1,2}` and `check` on generated file bytes, stdin bytes and file names vs the allowed-outcome set and the model-predicted class',
         'Runtime monitoring of the real CLI on hostile inputs (invalid UTF-8 in files and on stdin, missing files, directories, wrong extensions, unencodable output, deep areas): never panic/abort/signal/hang, status 1 only with a diagnostic.', '6 C13'),
 'C14': ('conservation monitor: stdout bytes of copy/reverse programs vs their stdin bytes in six configurations (interpreter -O0/1/2, compiled 0/1/2); expected output computed from the input text alone',
         'Runtime monitoring of real runs through real pipes on valid UTF-8 texts from all planes, boundary scalar values, CR/LF variants, missing final newline, very long lines and many lines; end of input must appear as NaN and only then.', '6 C14'),
}
PENDING = {}
props = [json.loads(l)['id'] for l in open(os.path.join(ROOT, 'properties.jsonl'))]
checks = []
for pid in props:
    if pid in CHECKS:
        tech, text, ref = CHECKS[pid]
        checks.append({
            'property_id': pid,
            'quick_cmd': 'python3 -m hv.run %s --tier quick' % pid,
            'thorough_cmd': 'python3 -m hv.run %s --tier thorough' % pid,
            'evidence_file': '/verif/evidence/%s.json' % pid,
            'replay_cmd_template': 'python3 -m hv.run %s --replay {path}' % pid,
            'engine': 'hv',
            'level_claimed': {'category': 'exploration', 'text': text, 'design_ref': 'DESIGN.md section ' + ref},
            'level_note': TRUST,
            'technique': tech,
        })
na = [{'property_id': p, 'reason': PENDING.get(p, 'monitor under construction in this build phase; will be claimed once validated (see DESIGN.md section 6)')}
      for p in props if p not in CHECKS]
m = {
 'version': 1,
 'setup_cmd': 'python3 -m hv.run setup',
 'hooks': {'guard': '--cfg hyeong_verif', 'enable': 'no source hooks are needed: every observation point is reachable through the public library API, the binary, the emitted source or the OS; checks build /repo unmodified (dev profile) into /verif/build',
           'baseline_off_cmd': 'cd /repo && cargo test --workspace --no-fail-fast --offline', 'source_commits': [], 'add_only': True},
 'engines': [{'name': 'hv', 'path': '/verif/hv', 'serves_properties': sorted(CHECKS), 'kind_free_text': 'python3 (stdlib) monitors + Rust harness binaries in /verif/harness driving the real code; runtime monitoring with reference-model oracles'}],
 'checks': checks,
 'notes': 'Runtime monitoring and sanitizers family. Exit 0 = held on everything observed, 1 = VIOLATION lines, 2 = INCONCLUSIVE (infrastructure / too little observed). VERIF_SEED selects the workload. known_findings.txt lists eleven repaired defects (fixed:, suppress nothing).',
}
if na:
    m['not_applicable'] = na
json.dump(m, open(os.path.join(ROOT, 'MANIFEST.json'), 'w'), indent=1, ensure_ascii=False)
print('checks:', len(checks), 'not_applicable:', len(na))
