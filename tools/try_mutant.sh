#!/bin/bash
# try_mutant.sh PATCH CHECK [TIER]  — apply PATCH to /repo, run `python3 -m hv.run CHECK`, always undo.
# Development helper for the kill matrix; nothing is ever committed to /repo by it.
set -u
PATCH=$(readlink -f "$1"); CHECK=$2; TIER=${3:-quick}
cd /repo || exit 2
if ! git diff --quiet; then echo "repo working tree not clean"; exit 2; fi
git apply "$PATCH" || { echo "patch does not apply"; exit 2; }
trap 'git -C /repo checkout -- . ' EXIT
cd /verif && python3 -m hv.run "$CHECK" --tier "$TIER" 2>&1 | tail -${TAIL:-4}
echo "exit=${PIPESTATUS[0]}"
