#!/usr/bin/env python3
"""Regenerates the table of DESIGN.md section 12 from seeded/*/meta.json (fields summary / needs / history / results)."""
import glob, json, os, re
ROOT = os.path.dirname(os.path.dirname(os.path.abspath(__file__)))
lines = ['| id | the change (innocent-looking) | what it needs to manifest | owning check, quick tier (witnesses, latest run) | history |', '|---|---|---|---|---|']
n = caught = 0
for d in sorted(glob.glob(os.path.join(ROOT, 'seeded', '*'))):
    mp = os.path.join(d, 'meta.json')
    if not os.path.exists(mp):
        continue
    m = json.load(open(mp))
    sid = m['id']
    c = sid[:3]
    r = m.get('results', {}).get(c + '@quick', {})
    sig = re.search(r'(\d+) distinct', r.get('summary', ''))
    n += 1
    caught += 1 if r.get('caught') else 0
    lines.append('| %s | %s | %s | %s %s (%s) | %s |' % (sid, m.get('summary', ''), m.get('needs', ''), c,
                 'caught' if r.get('caught') else 'MISSED', sig.group(1) if sig else '-', m.get('history', '')))
s = open(os.path.join(ROOT, 'DESIGN.md')).read()
i = s.index('| id | the change (innocent-looking)')
s = s[:i] + '\n'.join(lines) + '\n'
open(os.path.join(ROOT, 'DESIGN.md'), 'w').write(s)
print('seeded: %d, caught by the owning quick check in the latest recorded run: %d' % (n, caught))
