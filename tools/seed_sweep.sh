#!/bin/bash
# seed_sweep.sh FROM TO [TIER] — run every registered check at VERIF_SEED=FROM..TO; print only non-zero exits and a summary.
cd "$(dirname "$(readlink -f "$0")")/.." || exit 2
TIER=${3:-quick}; bad=0; n=0
for s in $(seq $1 $2); do
  for id in $(python3 -c "import json;print(' '.join(c['property_id'] for c in json.load(open('MANIFEST.json'))['checks']))"); do
    out=$(VERIF_SEED=$s python3 -m hv.run $id --tier $TIER 2>&1); rc=$?; n=$((n+1))
    if [ $rc -ne 0 ]; then bad=$((bad+1)); echo "seed=$s $id rc=$rc"; echo "$out" | tail -4; fi
  done
  echo "seed $s done"
done
echo "runs=$n nonzero=$bad"
