#!/bin/bash
# run_all.sh [quick|thorough] — run every check registered in MANIFEST.json, print one status line each.
TIER=${1:-quick}
cd "$(dirname "$(readlink -f "$0")")/.." || exit 2
for id in $(python3 -c "import json;print(' '.join(c['property_id'] for c in json.load(open('MANIFEST.json'))['checks']))"); do
  s=$(date +%s.%N)
  out=$(python3 -m hv.run $id --tier $TIER 2>&1); rc=$?
  e=$(date +%s.%N)
  printf "%s rc=%d %.1fs  %s\n" $id $rc $(echo "$e - $s" | bc) "$(echo "$out" | tail -1 | cut -c1-150)"
done
