#!/bin/bash
# Fast baseline loop for development: the 104 stable tests (all test binaries except build_test,
# which needs the network) plus doctests. Not registered in MANIFEST; see hooks.baseline_off_cmd.
cd /repo || exit 2
T=""
for f in tests/*.rs; do b=$(basename "$f" .rs); [ "$b" = build_test ] || T="$T --test $b"; done
cargo test --offline --no-fail-fast $T 2>&1 | grep -E "^test result|FAILED|panicked" 
cargo test --offline --doc 2>&1 | grep -E "^test result|FAILED"
rm -rf /root/.hyeong
