"""Workload generators for program-level monitors (C01, C02, C03, C07, C10-C14).

Four sources (DESIGN.md section 4): random programs with colliding label keys, parameterised
templates aimed at the mechanisms the property anchors name, mutation of a corpus (repository
examples, test programs, the templates), and an observation epilogue that makes latent stack
contents visible in the program's own output.  Every generated case is later *admitted* through the
reference interpreter (hv.refinterp) — generators may produce non-terminating or exploding programs.
"""
import os
from .lang import build_area, render_prog
from . import refparse

ROOT = os.path.dirname(os.path.dirname(os.path.abspath(__file__)))

# ------------------------------------------------------------------------------------------ areas


def rand_area(rng, hearts, p_none=0.3, p_more_q=0.45, p_more_b=0.3, p_slot_none=0.4, maxq=3, maxb=2):
    if rng.random() < p_none:
        return None

    def slot():
        return None if rng.random() < p_slot_none else rng.choice(hearts)

    nq = 0
    while rng.random() < p_more_q and nq < maxq:
        nq += 1
    parts = []
    for _ in range(nq + 1):
        nb = 0
        while rng.random() < p_more_b and nb < maxb:
            nb += 1
        parts.append([slot() for _ in range(nb + 1)])
    return build_area(parts)


def long_chain_area(rng, nops=None):
    """A grammar-shaped area with tens to hundreds of operators (mostly empty slots, a few hearts)."""
    if nops is None:
        nops = rng.choice([20, 35, 40, 64, 100, 300])
    parts = [[]]
    parts[0].append(None if rng.random() < 0.8 else rng.choice([2, 13]))
    for _ in range(nops):
        if rng.random() < 0.7:
            parts.append([None if rng.random() < 0.85 else rng.choice([2, 5, 13])])
        else:
            parts[-1].append(None if rng.random() < 0.85 else rng.choice([2, 5, 13]))
    return build_area(parts)


# --------------------------------------------------------------------------------- random programs
def gen_random(rng, allow_input=True, nmin=3, nmax=14):
    """Random command sequences. A small per-program palette of (syllables, dots) pairs and hearts makes
    label keys (syllables*dots, heart) collide, so that jumps and ♡ returns actually happen."""
    pal_hd = [(rng.choice([1, 1, 2]), rng.choice([0, 1, 1, 2, 3])) for _ in range(rng.randint(1, 2))]
    pal_h = [rng.choice([2, 3, 4, 7, 12]) for _ in range(rng.randint(1, 2))] + [13]
    n = rng.randint(nmin, nmax)
    prog = []
    for _ in range(n):
        t = rng.choice([0, 0, 0, 0, 1, 1, 2, 3, 3, 4, 5, 5])
        if rng.random() < 0.6:
            h, d = rng.choice(pal_hd)
            if t != 0 and d == 0 and not allow_input:
                d = 3
        else:
            h = rng.choice([1, 1, 1, 2, 2, 3, rng.randint(1, 6)])
            if t == 0:
                d = rng.choice([0, 1, 1, 2, 2, 3, 4, 6, rng.randint(0, 40)])
            else:
                d = rng.choice([1, 1, 3, 3, 3, 4, 4, 5, 6, 2, rng.randint(1, 9)] + ([0, 0] if allow_input else []))
        prog.append((t, h, d, rand_area(rng, pal_h) if rng.random() > 0.01 else long_chain_area(rng)))
    return prog


def gen_stacky(rng, allow_input=False):
    """Many 흑 switches to stacks >= 4, pushes into never-selected stacks, a jump back near the end:
    the shapes that decide level-1 renumbering/liveness."""
    hearts = [rng.choice([2, 3, 5]), 13]
    stacks = rng.sample([4, 5, 6, 7, 8, 9, 11, 17], rng.randint(2, 4))
    prog = []
    n = rng.randint(5, 12)
    for i in range(n):
        r = rng.random()
        if r < 0.3:
            prog.append((0, 1, rng.choice([1, 2, 3, 1, 2]), rand_area(rng, hearts, p_none=0.6)))
        elif r < 0.55:
            prog.append((rng.choice([1, 1, 2, 3]), rng.choice([1, 1, 2]), rng.choice(stacks + [1, 3]),
                         rand_area(rng, hearts, p_none=0.6)))
        elif r < 0.8:
            prog.append((5, rng.choice([1, 1, 2]), rng.choice(stacks + [3]), rand_area(rng, hearts, p_none=0.5)))
        else:
            prog.append((0, 1, rng.choice([1, 2, 3]), rand_area(rng, hearts, p_none=0.1)))
    # closing part: switch to a (possibly fresh) stack and jump back
    prog.append((5, 1, rng.choice(stacks), None))
    prog.append((0, 1, rng.choice([1, 2, 3]), rand_area(rng, hearts, p_none=0.0, p_more_q=0.7)))
    return prog


# ------------------------------------------------------------------------------- building fragments
def push_value(n, cur=3):
    """Commands that leave the non-negative integer n on top of stack `cur` (which must be selected)."""
    if n <= 1500:
        return [(0, 1, n, None)]
    for h in (2, 3, 4, 5, 6, 7, 8, 10, 12, 16, 20, 32, 40, 64):
        if n % h == 0 and n // h <= 1500:
            return [(0, h, n // h, None)]
    a = int(n ** 0.5)
    b = n // a
    c = n - a * b
    cmds = push_value(a, cur) + push_value(b, cur) + [(2, 2, cur, None)]
    if c:
        cmds += push_value(c, cur) + [(1, 2, cur, None)]
    return cmds


def print_chars(codes, cur=3, sink=1):
    cmds = []
    for c in codes:
        cmds += push_value(c, cur) + [(1, 1, sink, None)]
    return cmds


HOSTILE = [0x7b, 0x7d, 0x22, 0x5c, 0x27, 0x25, 0x00, 0x0a, 0x0d, 0x7f, 0x80, 0x7ff, 0x800, 0xd7ff, 0xe000,
           0xffff, 0x10000, 0x10ffff, 0x41, 0x20, 0x7b, 0x7d, 0xac00, 0x1f496, 0x5b, 0x3e,
           0x09, 0x1b, 0x2028, 0xfeff, 0x301, 0xad, 0x200d, 0xe0001, 0x24, 0x60, 0x23]
UNENCODABLE = [0xd800, 0xdfff, 0x110000, 0x200000]


def stack_neutral_body(rng, cur=3):
    """A few commands that leave stack `cur` as they found it (may print, may touch other stacks)."""
    k = rng.random()
    if k < 0.3:
        return []
    if k < 0.6:
        return print_chars([rng.choice([0x41, 0x7b, 0x7d, 0x30, 0x0a, 0xac00, 0x25, 0x20, 0xa0, 0x3000, 0x20])], cur, rng.choice([1, 1, 2]))
    if k < 0.8:
        return [(0, 1, rng.randint(1, 5), None), (1, 1, rng.choice([4, 5, 6]), None)]
    return [(0, 1, 2, None), (0, 1, 3, None), (3, 2, rng.choice([1, 4]), None), (1, 2, 5, None)]


# ---------------------------------------------------------------------------------------- templates
def tmpl_countdown(rng, iters=None, allow_input=False):
    """Count-down loop: N on stack 3, minus 3 per iteration, `흑...?💕` jumps back while the counter
    is >= 3.  iters around 100 straddle the optimiser's speculation budget; bodies print so that
    rolled-back output would be seen twice."""
    if iters is None:
        iters = rng.choice([1, 2, 3, 7, 50, 98, 99, 100, 101, 102, 103, 150, 330])
    n = 3 * iters + rng.choice([0, 1, 2])
    ps = rng.choice([1, 1, 2, 4])
    pre = stack_neutral_body(rng) if rng.random() < 0.5 else []
    prog = pre + push_value(n) + [(0, 1, 3, 4), (3, 1, ps, None), (1, 2, 3, None)]
    prog += stack_neutral_body(rng)
    prog += [(5, 1, 3, ('?', None, 4))]
    tail = rng.random()
    if tail < 0.4:
        prog += [(1, 1, 1, None)]
    elif tail < 0.7:
        prog += stack_neutral_body(rng) + [(1, 1, rng.choice([1, 2]), None)]
    return prog


def tmpl_nested(rng):
    """Two nested count-down loops (outer label (3,💕), inner label (2,💗)) whose total number of jumps
    straddles the optimiser's 100-jump budget although neither loop alone does."""
    n1, n2 = rng.choice([(10, 9), (9, 10), (11, 9), (5, 19), (20, 4), (4, 24), (7, 14), (3, 3), (2, 60), (12, 8)])
    n = 3 * n1 + rng.choice([0, 1, 2])
    m = 2 * n2 + rng.choice([0, 1])
    ps = rng.choice([1, 2, 4])
    prog = push_value(n)
    prog += [(0, 1, 3, 4), (3, 1, 5, None), (1, 2, 3, None)]                       # outer: label, -3
    prog += push_value(m)
    prog += [(0, 1, 2, 6), (3, 1, ps, None), (1, 2, 3, None)]                      # inner: label, -2 (prints "2" when ps is 1/2)
    prog += stack_neutral_body(rng) if rng.random() < 0.5 else []
    prog += [(5, 1, 3, None), (0, 2, 1, ('?', None, ('?', None, 6)))]              # dup inner counter, test it against 2
    prog += [(1, 1, 5, None)]                                                      # drop the spent inner counter
    prog += stack_neutral_body(rng) if rng.random() < 0.3 else []
    prog += [(5, 1, 3, ('?', None, 4))]                                            # outer test
    if rng.random() < 0.5:
        prog += [(1, 1, 1, None)]
    return prog


def tmpl_equal_loop(rng):
    """Loop controlled by `!`: counts up by 1 until the counter equals the command's count."""
    target = rng.choice([2, 3, 5, 40, 99, 100, 101, 120])
    # [c]; label cmd pushes 1 (count 1 -> label (target? no) ...): use product = target on the test command
    # 형 (c=0) ; L: 형.💗 (push 1, label (1,💗)) ; 하앙... (c+1) ; [print] ; 흑 x target dots? -> would select stack target.
    # Instead test with 형{target}!_💗 : pushes target, '!' pops it (== target -> left = None) -- useless.
    # Use: dup counter with 흑... then 항{target-as-dots}? no.  Keep it simple: compare a copy against count 1*1:
    # counter runs DOWN to 1:  [n] L: 형.💗(push 1) 흣..... (-> -1, junk to 5) 하앙...(n-1) 흑... (dup) 형. (push 1) 항..... (pop it)
    # test: 항.!_💗  (type 1,h=1,d=1 -> count 1): pops dup copy -> prints char(n-1)!, then '!' pops n-1 ... would consume counter.
    n = target
    prog = push_value(n) + [(0, 1, 1, 6), (3, 1, 5, None), (1, 2, 3, None), (5, 1, 3, None), (5, 1, 3, None),
                            (1, 1, 4, ('!', None, 6))]
    # after two dups: [c,c,c]; 항.... pops one (to stack 4), '!' pops one: c == 4? left None (stop) else 💗 -> jump
    return prog + [(1, 1, 1, None)]


def tmpl_dispatch(rng, allow_input=False):
    """k labelled filler blocks + one loop: exercises dispatch trees of many sizes and jumps into the middle."""
    k = rng.choice([1, 2, 3, 4, 5, 7, 8, 9, 15, 16, 17, 31, 32, 33, 63, 64, 65, 127, 128, 129])
    j = rng.randrange(k)
    iters = rng.choice([1, 2, 3, 5])
    n = 3 * iters + rng.choice([0, 1, 2])
    prog = push_value(n)
    rd = rng.randrange(k) if allow_input and rng.random() < 0.8 else None
    for i in range(k):
        if i == j:
            prog += [(0, 1, 3, 4), (3, 1, rng.choice([1, 4]), None), (1, 2, 3, None)]
        else:
            prog += [(0, 1, 40 + i, 5), (1, 1, rng.choice([1, 1, 2, 6]), None)]
        if rd == i:
            # read one character of input in the middle (stack 0 empty -> refill) and print it
            prog += [(5, 1, 0, None), (1, 2, 1, None), (5, 1, 3, None), (1, 1, 7, None)]
    prog += [(5, 1, 3, ('?', None, 4))]
    return prog


def tmpl_heart_return(rng):
    """Call/return through ♡, derived from tests/execute_test.rs test07, with varied constants."""
    a, b = rng.choice([(1, 2), (2, 1), (1, 1), (2, 3)])
    text = "형%s 형%s 형. 흑...💘 항.... 하앙... 항...♡ 흑...💘 ! 흣...흑%s" % ('.' * a, '.' * b, rng.choice(['.', '..']))
    return refparse.commands_only(refparse.parse(text))


def tmpl_subroutine(rng):
    """A 'print the top of the selected stack' subroutine (label + ♡ return) called with several
    freshly selected stacks while other never-selected stacks hold data: run-time stack selection that
    differs from the textual order (what level-1 renumbering must get right)."""
    stacks = rng.sample([4, 5, 6, 7, 8, 9, 12, 30], rng.randint(2, 5))
    ncall = rng.randint(1, min(3, len(stacks) - 1)) if len(stacks) > 1 else 1
    callers = stacks[:ncall]
    data = stacks[ncall:] + ([rng.choice(callers)] if rng.random() < 0.5 else [])
    sink = rng.choice([1, 1, 2])
    prog = []
    for a in data:
        for _ in range(rng.randint(1, 2)):
            prog += [(0, 1, rng.randint(33, 120), None), (1, 1, a, None)]
    # subroutine: first execution happens inline (registers the label), later ones by jump
    prog += [(0, 1, rng.randint(33, 120), None), (1, rng.choice([1, 1, 2]), sink, 2), (0, 1, 0, 13)]
    for b in callers:
        prog += [(0, 1, 3, None), (5, rng.choice([1, 1, 2]), b, None), (0, 1, sink, ('?', None, ('?', None, 2)))]
    return prog


def tmpl_two_returns(rng):
    """Rejection-sampled variant of _two_returns_once: keeps a candidate whose reference run really takes
    two ♡ returns with no label jump in between (the generator uses the model only to SELECT workloads)."""
    from .refinterp import Machine, Limits
    prog = None
    for _ in range(300):
        prog = _two_returns_once(rng)
        m = Machine(prog, '', Limits(steps=400))
        o, e, end = m.run()
        if not end.startswith('notadmitted') and m.st['heart_after_heart']:
            break
    return prog


def tmpl_forward_jump(rng):
    """Data-driven control flow over two label keys: an earlier command's conditional heart is first not
    taken, a later command registers the label, a backward jump returns, then the earlier command jumps
    FORWARD to the already registered label.  Skeleton  L: label2 ; A: cond label1 ; B: label1 ; J: cond label2,
    with random extra commands in between; the data values that steer the conditions are sampled until the
    reference model really takes a forward jump."""
    from .refinterp import Machine, Limits
    prog = None
    for _ in range(400):
        data = [rng.choice([0, 0, 1, 5, 5, 70, 77, 84, 90]) for _ in range(rng.randint(10, 20))]
        prog = [(0, 1, v, None) for v in data]
        lab1, lab2 = rng.sample([2, 5, 7, 9], 2)
        d1, d2 = rng.choice([(1, 2), (2, 1), (1, 1), (2, 2)])

        def filler():
            return [(1, 1, rng.choice([1, 2]), rng.choice([None, None, 13, ('?', 13, None)]))] if rng.random() < 0.3 else []
        # (also with the label heart under `!` in the LEFT operand of `?`: [[lab]![_]]?[_])
        cond = lambda lab: rng.choice([('?', lab, None), ('?', lab, None), ('?', None, lab), ('!', lab, None),
                                       ('?', ('!', lab, None), None), ('?', ('!', None, lab), None), ('?', ('!', lab, lab), None)])
        prog += [(1, 1, d2, lab2)] + filler()
        prog += [(1, 1, d1, cond(lab1))] + filler()
        prog += [(1, 1, d1, rng.choice([lab1, lab1, ('?', ('!', lab1, lab1), lab1), ('!', lab1, lab1)]))] + filler()
        prog += [(1, 1, d2, cond(lab2))] + filler()
        if rng.random() < 0.4:
            prog += [(1, 1, d1, cond(lab1))]
        if rng.random() < 0.5:
            # a ♡ after the forward jump (often of distance exactly 1): it must return to the forward jump's source
            prog += [(0, 1, rng.choice([0, 1, 65]), None)] * rng.randint(0, 2) + [(1, 1, rng.choice([1, 2, 4]), rng.choice([13, ('?', 13, None), ('?', None, 13)]))]
        m = Machine(prog, '', Limits(steps=400))
        o, e, end = m.run()
        if not end.startswith('notadmitted') and m.st['forward_jumps']:
            break
    return prog


def tmpl_nan_variants(rng, allow_input=True):
    """NaN reached by different routes (empty pop, 1/0, NaN+x, NaN*x, negated NaN, inverted NaN) is delivered to
    EMPTY and non-empty stacks - including stack 0, where a kept NaN would mask an input read - and then observed.
    The routes matter because the implementation has several internal representations of NaN."""
    prog = []
    a = rng.choice([4, 5, 6])
    prog += [(0, 1, rng.choice([5, 7, 65]), None), (1, 1, a, None)]           # stack a = [v]
    route = rng.random()
    if route < 0.2:
        prog += [(1, 1, a, None)]                                              # pop empty stack 3 -> NaN -> onto a (kept)
    elif route < 0.4:
        prog += [(0, 1, 0, None), (4, 1, a, None)]                             # 1/0 -> NaN; product NaN -> a
    elif route < 0.6:
        prog += [(3, 1, a, None)]                                              # negate NaN (empty pop) -> -NaN -> a
    elif route < 0.8:
        prog += [(3, 2, a, None)]
    else:
        prog += [(4, 1, a, None), (3, 1, a, None)]
    prog += [(5, 1, a, None)]                                                  # select a (stack 3 is empty: copies NaN onto a)
    dest = rng.choice([0, 0, 0, 7, 8]) if allow_input else rng.choice([7, 8])
    k = rng.random()
    if k < 0.5:
        prog += [(5, rng.choice([1, 2]), dest, None)]                          # 흑: top of a (a NaN variant) copied to dest, select dest
    elif k < 0.75:
        prog += [(3, 1, dest, None), (5, 1, dest, None)]                       # negate top, sum (NaN) -> dest; then select dest via copy
    else:
        prog += [(1, 1, dest, None), (5, 1, dest, None)]
    prog += [(1, 1, 1, None)] * rng.randint(1, 3)                              # observe: prints / reads input if dest is 0 and empty
    if rng.random() < 0.5:
        prog += [(5, 1, a, None), (1, 1, 1, None), (1, 1, 1, None)]
    return prog


def tmpl_stack0_data(rng, nan_share=0.2, area_share=0.25):
    """Stack 0 used as an ordinary data stack before (and while) it doubles as the input buffer: values are
    pushed onto it, it is selected, and then printed from / popped by multi-operand commands / compared in
    areas while it is still non-empty, finally running dry so that the next pops read input lines."""
    if rng.random() < nan_share:
        # stack 0 is the selected stack; part of an input line is consumed, then NaN (and ordinary values) are pushed ONTO
        # stack 0 while the rest of the line is still unread, and everything is popped and printed again: NaN must be kept
        # (the stack is not empty: unread characters of the line are below it)
        # (0 printed characters first: the 0 is then the ONLY item of stack 0 and the NaN put back is dropped, so the next
        # pop - possibly a test of the same command's area - reads a fresh line)
        if rng.random() < 0.35:
            # nothing read yet: a 0 is the ONLY item of stack 0; its reciprocal (NaN) is refused by the emptied stack, so the
            # first test of the SAME command's area already reads a fresh line
            area = rng.choice([('?', None, None), ('?', 4, None), ('!', None, 4), ('?', None, ('!', 4, None)), ('!', 4, ('!', None, None)),
                               rand_area(rng, [4, 5, 13], p_none=0.0, p_slot_none=0.5)])
            return ([(5, 1, 0, None), (0, 1, 0, None), (4, 1, rng.choice([3, 3, 4, 0]), area)] + [(1, 1, rng.choice([1, 1, 2]), None)] * rng.randint(2, 5))
        prog = [(5, 1, 0, None)] + [(1, 1, 1, None)] * rng.randint(0, 3)
        ar = lambda: rng.choice([None, None, ('?', None, None), ('?', 4, None), ('!', None, 4), ('?', None, ('!', 4, None)),
                                 rand_area(rng, [4, 5, 13], p_none=0.0, p_slot_none=0.5)])
        for _ in range(rng.randint(1, 2)):
            r = rng.random()
            if r < 0.5:
                prog += [(0, 1, 0, None), (4, 1, rng.choice([3, 4, 0]), ar())]             # 0, then 1/0 back onto stack 0
            elif r < 0.7:
                prog += [(0, 1, 0, None), (0, 1, 0, None), (4, 2, rng.choice([3, 0]), ar())]
            elif r < 0.85:
                prog += [(0, 1, rng.choice([65, 66]), None), (0, 1, 0, None), (4, 1, 3, ar())]
            else:
                prog += [(5, 1, 4, None), (1, 2, 0, None), (5, 1, 0, None)]                # NaN sum from stack 4 sent to stack 0
        prog += [(1, 1, rng.choice([1, 1, 2]), None)] * rng.randint(2, 6)
        if rng.random() < 0.3:
            prog += [(1, 2, 1, None)]
        return prog
    if rng.random() < area_share:
        # own values go straight onto the selected stack 0, then commands whose `?`/`!` areas may pop more of them than
        # there are: the exact point where own values end and real input starts is inside one area evaluation
        if rng.random() < 0.35:
            # a negate / reciprocal command takes ALL own values of stack 0 (zeroes at the bottom: their reciprocal is NaN, and
            # NaN put back onto the emptied stack is refused), then its area pops more than what survived
            k = rng.randint(2, 4)
            vals = [0] * rng.randint(1, k - 1)
            vals += [rng.choice([1, 2, 2, 5, 0]) for _ in range(k - len(vals))]
            prog = []
            for v in vals[:-1]:
                prog += [(0, 1, v, None), (1, 1, 0, None)]                    # bottom values first
            prog += [(0, 1, vals[-1], None), (5, 1, 0, None)]                 # the last one is copied over while selecting stack 0
            h = k + rng.choice([0, 0, 0, -1, 1])
            area = build_area([[None if rng.random() < 0.6 else rng.choice([4, 5, 13]) for _ in range(rng.randint(1, 3))]
                               for _ in range(rng.randint(1, 3))])
            if area is None or isinstance(area, int):
                area = ('!', None, ('!', None, None))
            prog.append((rng.choice([4, 4, 4, 3]), max(1, h), rng.choice([3, 3, 4, 0]), area))
            prog += [(1, 1, 1, None)] * rng.randint(0, 3)
            return prog
        own = rng.randint(1, 4)
        prog = [(0, 1, rng.choice([0, 1, 2, 9]), None), (1, 1, 0, None)] * own + [(5, 1, 0, None)]
        for _ in range(rng.randint(2, 6)):
            npush = rng.randint(0, 3)
            prog += [(0, 1, rng.choice([0, 0, 1, 2, 9]), None) for _ in range(npush)]
            # often exactly as many operands as values just pushed (the command empties its own supply; whatever its area
            # pops next comes from older values, a put-back - or real input)
            h = npush if (npush and rng.random() < 0.5) else rng.choice([1, 1, 2, 3])
            prog.append((rng.choice([0, 1, 1, 3, 4, 4]), h, rng.choice([1, 3, 3, 0]),
                         rand_area(rng, [4, 5, 13], p_none=0.0, p_more_q=0.6, p_more_b=0.6, p_slot_none=0.4, maxq=3, maxb=3)))
        prog += [(1, 1, 1, None)] * rng.randint(0, 3)
        return prog
    if rng.random() < 0.35:
        # few own values on stack 0, then ONE multi-operand command that needs more than that (it crosses from
        # own values into the input line) and whose area keeps popping (possibly past the end of the line)
        own = rng.randint(0, 2)
        prog = [(5, 1, 0, None)] + [(0, 1, rng.choice([1, 1, 2, 33]), None) for _ in range(own)]
        prog.append((rng.choice([1, 1, 2, 3, 4]), own + rng.randint(1, 2), rng.choice([1, 1, 3, 0]),
                     rand_area(rng, [4, 13], p_none=0.15, p_more_q=0.7, p_slot_none=0.6)))
        prog += [(1, 1, 1, None)] * rng.randint(2, 7)
        if rng.random() < 0.4:
            prog += [(0, 1, 1, None), (1, rng.choice([2, 3]), 1, rand_area(rng, [4, 13], p_none=0.3))]
        return prog
    prog = []
    for _ in range(rng.randint(1, 4)):
        prog += push_value(rng.choice([9, 33, 65, 81, 90, 1, 0])) + [(rng.choice([1, 1, 2]), 1, 0, None)]     # value -> stack 0
    if rng.random() < 0.5:
        prog += push_value(rng.choice([66, 81, 2]))
    prog += [(5, rng.choice([1, 1, 2]), 0, rng.choice([None, None, ('?', None, 4)]))]                          # select stack 0 (copies on top)
    hearts = [4, 13]
    for _ in range(rng.randint(2, 7)):
        k = rng.random()
        if k < 0.3:
            prog.append((1, 1, rng.choice([1, 1, 2]), rand_area(rng, hearts, p_none=0.5)))                     # print from stack 0
        elif k < 0.55:
            prog.append((rng.choice([1, 3, 4, 2]), rng.choice([2, 2, 3]), rng.choice([0, 0, 1, 3]), rand_area(rng, hearts, p_none=0.6)))
        elif k < 0.75:
            prog.append((0, 1, rng.choice([0, 1, 9, 65, 81]), rand_area(rng, hearts, p_none=0.4)))              # push onto stack 0, compare
        elif k < 0.9:
            prog.append((5, 1, rng.choice([0, 3, 4]), rand_area(rng, hearts, p_none=0.6)))
        else:
            prog += push_value(81) + [(1, 1, 1, None)]
    if rng.random() < 0.5:
        prog += [(5, 1, 0, None), (1, rng.choice([1, 2, 3]), 1, None)]
    return prog


def tmpl_self_return(rng, with_read=None):
    """A command whose area holds BOTH a label heart and ♡ first jumps by label (becoming the last jump
    source) and later takes its ♡ branch, i.e. returns to ITSELF and runs again.  Optionally starts by
    reading a character so that level-2 pre-execution hands over immediately."""
    from .refinterp import Machine, Limits
    prog = None
    if with_read is None:
        with_read = rng.random() < 0.5
    for _ in range(500):
        prog = _two_returns_once(rng, mixed=True)
        if with_read:
            prog = [(5, 1, 0, None), (5, 1, 3, None)] + prog
        m = Machine(prog, 'xy\n', Limits(steps=400))
        o, e, end = m.run()
        if not end.startswith('notadmitted') and m.st['heart_return_to_self']:
            break
    return prog


def _two_returns_once(rng, mixed=False):
    """Data-driven call/return: several commands share one label key and several carry ♡, all conditional
    on values popped from a preloaded stack, so that two ♡ returns can happen with no label jump between
    them (the last jump source must then still be the LABEL jump's source)."""
    data = [rng.choice([0, 0, 1, 5, 5, 70, 77, 84, 90]) for _ in range(rng.randint(8, 18))]
    prog = [(0, 1, v, None) for v in data]
    lab = rng.choice([2, 7])
    n = rng.randint(3, 6)
    forms_a = [lab, ('?', lab, None), ('?', lab, None), ('?', None, lab), ('!', lab, None)]
    forms_b = [13, ('?', 13, None), ('?', 13, None), ('?', None, 13), ('!', None, 13)]
    forms_m = [('?', lab, 13), ('?', 13, lab), ('?', lab, ('?', 13, None)), ('!', lab, 13), ('?', ('!', lab, 13), None),
               ('?', None, ('?', lab, 13))]
    code = [(1, 1, 1, lab)]
    for _ in range(n):
        r = rng.random()
        if mixed and r < 0.45:
            code.append((1, 1, 1, rng.choice(forms_m)))
        elif r < 0.6:
            code.append((1, 1, 1, rng.choice(forms_a)))
        else:
            code.append((1, 1, 2 if not mixed else rng.choice([1, 2]), rng.choice(forms_b)))
    return prog + code


def tmpl_fractions(rng):
    """Make fractions / negatives / NaN, compare them with ?/!, print them, leave some on stacks."""
    prog = []
    for _ in range(rng.randint(2, 5)):
        prog += [(0, rng.choice([1, 2, 3]), rng.choice([0, 1, 2, 3, 5, 7]), None)]
    ops = []
    for _ in range(rng.randint(2, 6)):
        r = rng.random()
        if r < 0.35:
            ops.append((4, rng.choice([1, 1, 2, 3]), rng.choice([3, 3, 4, 1]), rand_area(rng, [2, 13], p_none=0.6)))
        elif r < 0.55:
            ops.append((3, rng.choice([1, 2]), rng.choice([3, 4, 1]), None))
        elif r < 0.75:
            ops.append((rng.choice([1, 2]), 2, 3, rand_area(rng, [2, 3, 13], p_none=0.5)))
        elif r < 0.9:
            ops.append((0, rng.choice([1, 2]), rng.choice([1, 2, 3, 4]), rand_area(rng, [2, 3], p_none=0.3)))
        else:
            ops.append((5, 1, rng.choice([3, 4]), rand_area(rng, [2], p_none=0.3, p_more_q=0.8)))
    prog += ops
    # print as text: negate then print (negative -> decimal text)
    for _ in range(rng.randint(1, 3)):
        prog += [(3, 1, rng.choice([1, 2]), None)]
    return prog


HOSTILE_SEQS = ['\r\n', 'A\r\nB\r\n', '\n\n', '\r\r\n', ' \n ', '\t\n', '{}', '{{', '\\n', '"\\', "'\"", '%s%d', '\u2028\n', '\n\r']


def tmpl_hostile_output(rng, allow_unencodable=True, banner_share=0.25):
    if rng.random() < banner_share:
        # a BANNER: several lines (100-700 bytes) with one kind of line break (CR LF, LF, CR, LF CR), with or without a final
        # break, written before anything is read - long pre-computed text is where emitters start to split, wrap or re-flow
        sep = rng.choice(['\r\n', '\r\n', '\n', '\r', '\n\r', '\r\r\n'])
        lines = [''.join(rng.choice('abcXYZ 019{}"%\\' + '한é😀') for _ in range(rng.randint(0, 45))) for _ in range(rng.randint(3, 9))]
        text = sep.join(lines) + rng.choice([sep, sep, '', '\n'])
        sink = rng.choice([1, 1, 2])
        prog = print_chars([ord(ch) for ch in text], 3, sink)
        if rng.random() < 0.6:
            prog += read_fragment(rng) + print_chars([rng.choice([65, 0x0a, 0x0d])], 3, 1)
        return prog
    codes = [rng.choice(HOSTILE) for _ in range(rng.randint(1, 6))]
    if rng.random() < 0.4:
        codes += [ord(ch) for ch in rng.choice(HOSTILE_SEQS)] + [rng.choice(HOSTILE)]
    prog = print_chars(codes, 3, 1)
    if rng.random() < 0.5:
        prog += print_chars([rng.choice(HOSTILE) for _ in range(rng.randint(1, 3))], 3, 2)
    if allow_unencodable and rng.random() < 0.25:
        prog += print_chars([rng.choice(UNENCODABLE)], 3, rng.choice([1, 2]))
        prog += print_chars([0x42], 3, 1)
    return prog


def tmpl_exit(rng):
    """Program-requested exits through stack 1 / 2, directly, in multi-operand commands and inside areas."""
    prog = print_chars([rng.choice([0x41, 0x7b, 0x0a, 0xac00])], 3, rng.choice([1, 2])) if rng.random() < 0.7 else []
    prog += [(0, 1, rng.choice([1, 2, 3]), None)]
    s = rng.choice([1, 2])
    k = rng.random()
    if k < 0.3:
        prog += [(5, 1, s, None), (rng.choice([1, 2, 3, 4]), rng.choice([1, 2, 3]), 3, None)]
    elif k < 0.6:
        prog += [(5, 1, s, ('?', None, 2))]
    elif k < 0.8:
        prog += [(5, 1, s, ('!', 3, None)), (0, 1, 1, None)]
    else:
        prog += [(5, 2, s, None), (5, 1, 3, None)]
    prog += print_chars([0x5a], 3, 1)
    return prog


def tmpl_stack0(rng):
    """Push onto stack 0 before reading it; read; push back; re-read (stdin buffering paths)."""
    prog = []
    prog += [(0, 1, 65, None), (0, 1, 66, None)]
    prog += [(1, 1, 0, None)]                 # 66 -> stack 0
    prog += [(5, 1, 0, None)]                 # pop 65, copy to 0, push back; select 0   stack0=[66,65]
    n = rng.randint(1, 5)
    prog += [(1, 1, 1, None)] * n             # pops 65, 66, then refills from stdin
    if rng.random() < 0.5:
        prog += [(5, 1, 4, None), (5, 1, 0, None)]   # move one char to 4 and back onto 0
        prog += [(1, 1, 1, None)] * rng.randint(1, 3)
    if rng.random() < 0.5:
        prog += [(1, rng.choice([2, 3]), 1, None)]
    return prog


def read_fragment(rng):
    """Select stack 0 and consume input so that level-2 pre-execution must hand over here."""
    k = rng.random()
    if k < 0.4:
        return [(5, 1, 0, None), (1, 2, 1, None), (5, 1, 3, None)]
    if k < 0.7:
        return [(5, 1, 0, None), (1, 2, 4, None), (5, 1, 3, None), (1, 1, 5, None)]
    return [(5, 1, 0, ('?', 2, None)), (5, 1, 3, None)]


def tmpl_big_handover(rng):
    """Large / round numbers (10^k, 2^k, 1000^k, with and without a small addend, negated, inverted) are left on
    the stacks by the input-free prefix, input is read, and then the numbers are printed as decimal text and
    compared: at level 2 they cross the hand-over as text."""
    prog = []
    for _ in range(rng.randint(1, 3)):
        base, e = rng.choice([(10, rng.randint(9, 32)), (10, rng.choice([10, 11, 18, 19, 20, 21, 30])), (2, rng.choice([31, 32, 40, 62, 63, 64, 96, 127, 128])),
                              (2, rng.choice([63, 63, 64])), (2, 63), (10, 19), (1000, rng.randint(3, 10)), (6, 20), (7, 25), (3, rng.choice([39, 40])), (9, 20)])
        if rng.random() < 0.35:
            # integers at and around the limits of machine integers (and 19 / 20 decimal digits), built from factors
            v = rng.choice([2 ** 63, 2 ** 63 + rng.randint(0, 9), rng.randint(2 ** 63, 10 ** 19 - 1), 10 ** 19 - 1, 10 ** 19, 2 ** 64 - 1, 2 ** 64,
                            2 ** 63 - 1, 2 ** 31, 2 ** 32 - 1, 2 ** 32, 10 ** 18, rng.randint(10 ** 18, 2 ** 63 - 1), 2 ** 127, 2 ** 128 - 1])
            prog += push_value(v)
        else:
            prog += [(0, 1, base, None)] * e + [(2, e, 3, None)]
        r = rng.random()
        if r < 0.15:
            prog += [(0, 1, rng.randint(1, 9), None), (1, 2, 3, None)]
        elif r < 0.3:
            prog += [(0, 1, 1, None), (3, 1, 6, None), (1, 2, 3, None)]      # big - 1 (2^63 - 1, 2^64 - 1, 10^19 - 1 ...)
        elif r < 0.45:
            prog += [(4, 1, rng.choice([4, 5]), None)]          # 1/big stays on stack 3, product copy goes elsewhere
        elif r < 0.6:
            prog += [(3, 1, rng.choice([4, 5]), None)]          # negated
    prog += read_fragment(rng)
    for _ in range(rng.randint(1, 4)):
        prog.append(rng.choice([(3, 1, 1, None), (3, 1, 2, None), (3, 1, 1, None), (5, 1, 3, ('?', None, 2))]))
    return prog


def tmpl_handover_exit(rng):
    """prefix ; read ; print ; program-requested exit (directly, in a multi-operand command, inside an area) ; commands
    that must never run.  Also end of input reached in the middle (the read finds nothing)."""
    p = rng.choice([[], gen_random(rng, False, 1, 5), tmpl_countdown(rng, iters=rng.choice([1, 2, 3])), print_chars([65, 66], 3, rng.choice([1, 2]))])
    prog = list(p) + read_fragment(rng)
    prog += print_chars([rng.choice([0x41, 0x7b, 0x0a])], 3, rng.choice([1, 2])) if rng.random() < 0.7 else []
    s = rng.choice([1, 2])
    k = rng.random()
    if k < 0.35:
        prog += [(0, 1, 2, None), (5, 1, s, None), (rng.choice([1, 2, 3, 4]), rng.choice([1, 2]), 3, None)]
    elif k < 0.7:
        prog += [(0, 1, 2, None), (5, 1, s, rng.choice([('?', None, 2), ('!', 3, None), ('?', ('!', None, 13), 2)]))]
    else:
        prog += [(5, 1, 0, None), (1, 3, 1, None), (5, 1, s, None), (1, 1, 3, None)]
    prog += print_chars([0x5a], 3, 1)
    return prog


def state_fragment(rng):
    """Leaves something awkward on the stacks for the hand-over: NaN on a non-empty stack, a fraction, a
    negative value, a value on stack 0."""
    k = rng.random()
    if k < 0.2:
        # large and ROUND numbers (many decimal digits, trailing zeros, powers of two, zero limbs), as integer,
        # negated, or as the denominator of a fraction: they travel through text into level-2 compiled programs
        base, e = rng.choice([(10, rng.randint(9, 30)), (2, rng.choice([32, 40, 64, 96])), (1000, rng.randint(3, 9)), (6, 20)])
        frag = [(0, 1, base, None)] * e + [(2, e, 3, None)]
        r = rng.random()
        if r < 0.3:
            frag += [(0, 1, rng.randint(1, 9), None), (1, 2, 3, None)]          # + small
        elif r < 0.5:
            frag += [(3, 1, rng.choice([3, 4]), None)]                          # negated
        elif r < 0.75:
            frag += [(4, 1, rng.choice([3, 4]), None)]                          # 1 / big
        return frag
    if k < 0.35:
        return [(0, 1, rng.randint(1, 9), None), (0, 1, 0, None), (4, 1, rng.choice([3, 4, 5]), None)]       # 1/0 -> NaN kept
    if k < 0.5:
        return [(0, 1, 3, None), (1, 3, rng.choice([3, 4]), None), (0, 1, 7, None), (1, 3, 3, None)]          # sums over under-filled stack
    if k < 0.7:
        return [(0, 1, rng.choice([2, 3, 6]), None), (4, 1, rng.choice([3, 4]), None), (0, 2, 3, None), (2, 2, 3, None)]   # fractions
    if k < 0.85:
        return [(0, 1, rng.randint(1, 50), None), (3, 1, rng.choice([3, 4]), None)]                              # negatives
    return [(0, 1, rng.randint(33, 90), None), (1, 1, 0, None)]                                                  # value on stack 0


def tmpl_handover(rng):
    """input-free prefix P ; read ; Q sharing P's label palette (jumps back into P, pending ♡)."""
    k = rng.random()
    if k < 0.35:
        p = gen_random(rng, allow_input=False, nmin=2, nmax=8)
    elif k < 0.5:
        p = tmpl_countdown(rng, iters=rng.choice([1, 2, 3, 5]))
    elif k < 0.6:
        p = tmpl_heart_return(rng)
    elif k < 0.75:
        p = tmpl_fractions(rng)
    elif k < 0.85:
        p = gen_stacky(rng)
    else:
        p = []
    if rng.random() < 0.45:
        p = p + state_fragment(rng)
    # prefix ending shape: (a) with an area command, (b) with >= 2 area-less commands, (c) as is
    shape = rng.random()
    if shape < 0.3:
        p = p + [(0, 1, rng.choice([1, 2, 3]), rng.choice([2, 3, 4, ('?', None, 2), 13]))]
    elif shape < 0.55:
        p = p + [(0, 1, 2, None), (0, 1, 1, None), (1, 1, rng.choice([4, 1]), None)]
    hearts = sorted({a for c in p for a in _hearts_of(c[3])} | {13}) or [2, 13]
    prods = sorted({c[1] * c[2] for c in p if c[3] is not None}) or [1, 2, 3]
    q = []
    for _ in range(rng.randint(1, 7)):
        t = rng.choice([0, 0, 1, 1, 3, 5])
        if rng.random() < 0.6:
            pr = rng.choice(prods)
            h = 1
            d = pr
            if t != 0 and d > 9:
                d = rng.choice([1, 3, 4])
        else:
            h, d = rng.choice([1, 2]), rng.choice([1, 2, 3, 4])
        q.append((t, h, d, rand_area(rng, hearts, p_none=0.25)))
    return p + read_fragment(rng) + q


def tmpl_pending_return(rng):
    """Prefix that leaves a last-jump-source behind, area-less filler in front of it (so that command
    index != block index), hand-over by reading input, then a ♡ evaluated BEFORE any new jump."""
    filler = []
    for _ in range(rng.randint(0, 6)):
        filler += rng.choice([[(0, 1, rng.randint(0, 3), None)], [(0, 1, 2, None), (1, 1, rng.choice([4, 5, 6]), None)]])
    k = rng.random()
    if k < 0.45:
        p = tmpl_countdown(rng, iters=rng.choice([2, 3, 4]))
    elif k < 0.7:
        p = tmpl_heart_return(rng)[:-1]
    else:
        p = [(0, 1, 1, None), (0, 1, 1, None), (0, 1, 6, None), (0, 1, 1, None), (0, 1, 1, None),
             (1, 1, 5, 2), (1, 1, 5, ('?', None, 2))]
    mid = rng.choice([read_fragment(rng), [(5, 1, 2, None)], [(5, 1, 1, None)], [(5, 1, 0, None), (1, 1, 4, None), (5, 1, 3, None)]])
    between = [(0, 1, rng.randint(1, 3), None)] * rng.randint(0, 2)
    ret = [(0, 1, rng.choice([0, 1, 2]), rng.choice([13, 13, ('?', 13, None), ('?', None, 13), ('!', 13, 13)]))]
    tail = [(1, 1, 1, None)] if rng.random() < 0.5 else []
    return filler + p + between + mid + between + ret + tail


def tmpl_label_table(rng):
    """Several labels registered BEFORE the first input read, in an order that differs from the order of
    their keys, separated by runs of area-less commands; after the read, data-driven jumps back to them
    (the compiled program must translate every label of the pre-executed prefix to the right block)."""
    from .refinterp import Machine, Limits
    prog = None
    for _ in range(200):
        nl = rng.randint(2, 4)
        keys = []
        while len(keys) < nl:
            k = (rng.choice([1, 2, 3, 4, 5, 6]), rng.choice([2, 3, 4, 7, 12]))
            if k not in keys:
                keys.append(k)
        prog = []
        for _ in range(rng.randint(2, 6)):
            prog.append((0, 1, rng.choice([0, 0, 1, 2, 5, 9]), None))
        for (pr, h) in keys:
            for _ in range(rng.randint(0, 3)):
                prog += rng.choice([[(0, 1, rng.randint(0, 9), None)], [(0, 1, 66, None), (1, 1, rng.choice([1, 2]), None)]])
            prog.append((0, 1, pr, h))
        prog += [(0, 1, 65, None), (1, 1, 1, None)] if rng.random() < 0.5 else []
        prog += read_fragment(rng)
        targets = [rng.choice(keys) for _ in range(rng.randint(1, 3))]
        if rng.random() < 0.6:
            # one data-driven jump per registered label, in random order: whichever label the translation got wrong is used
            targets = list(keys)
            rng.shuffle(targets)
        for pr, h in targets:
            prog.append((0, 1, pr, ('?', None, rng.choice([('?', h, None), ('?', None, h), ('!', h, None), h]))))
            if rng.random() < 0.5:
                prog += [(0, 1, 67, None), (1, 1, 1, None)]
        m = Machine(prog, 'ab\ncd\n', Limits(steps=600))
        o, e, end = m.run()
        if not end.startswith('notadmitted') and m.st['jump_back_over_first_read']:
            break
    return prog


def tmpl_loop_carried(rng):
    """A count-down loop whose body looks at a value PARKED ON ANOTHER STACK by the previous round: the stack is selected,
    its top is printed (as decimal text), the counter stack is selected again, and only THEN - textually after the last
    command that selects that stack - a new value is sent there for the next round.  An analysis of the program text that
    ignores the back edge believes the parked value is never looked at."""
    t = rng.choice([4, 5, 7, 8, 33])
    junk = rng.choice([x for x in (6, 9, 12) if x != t])
    lab = rng.choice([2, 3, 4, 5])
    n = 3 * rng.randint(2, 5) + rng.choice([0, 1, 2])
    prog = []
    if rng.random() < 0.7:
        prog += [(0, 1, rng.choice([7, 8, 9]), None), (1, 1, t, None)]                 # something parked before the loop
    prog += push_value(n)
    prog += [(0, 1, 3, lab), (3, 1, junk, None), (1, 2, 3, None)]                        # counter -= 3 (junk gets the -3)
    prog += [(5, 1, t, None), (1, 1, junk, None)]                                        # select t; drop the copy of the counter
    prog += [(3, 1, rng.choice([1, 1, 2]), None)]                                        # look at the parked value (prints it)
    prog += [(5, 1, 3, None), (1, 1, junk, None)]                                        # back to the counter stack; drop the copy
    for _ in range(rng.randint(1, 2)):
        prog += [(0, 1, rng.choice([1, 2, 4, 5, 6]), None), (rng.choice([1, 1, 2]), 1, t, None)]      # park the next value AFTER the last select of t
    prog += [(5, 1, 3, ('?', None, lab))]
    if rng.random() < 0.5:
        prog += [(5, 1, t, None), (3, 1, 1, None), (3, 1, 1, None)]
    return prog


SKIP_STDINS = ['\nabcdef\n', '\n\n\nxy', '  ab\n', 'aaab\nc', '', '\n', 'a\n\n\nb\n', '\r\n\r\nxy\n', ' \n \nq', '한\n\n글\n']


def tmpl_skip_loop(rng):
    """An input-driven loop: characters are skipped while they equal (or are below) a constant - blank lines, leading
    spaces - by a push command whose NESTED area first pops the constant it pushed and then the next character; after
    the loop a few characters are printed.  Optionally own values lie on stack 0 first.  (Run with SKIP_STDINS.)"""
    c, h, d = rng.choice([(10, 5, 2), (10, 2, 5), (10, 1, 10), (32, 4, 8), (32, 1, 32), (97, 1, 97), (33, 3, 11)])
    lab = rng.choice([2, 3, 4, 5, 6])
    op = rng.choice(['!', '!', '?'])
    prog = [(1, 2, rng.choice([4, 5]), lab)] if rng.random() < 0.5 else [(0, h, d, lab), (1, 1, rng.choice([4, 5]), None)]
    if rng.random() < 0.4:
        prog += [(0, 1, rng.choice([c, c, 0, 66]), None), (1, 1, 0, None)] * rng.randint(1, 2)      # own values on stack 0 first
    prog += [(5, 1, 0, None)]
    test = rng.choice([('?', None, (op, lab, None)), ('?', None, (op, lab, None)), (op, None, (op, lab, None)), ('?', None, ('?', None, (op, lab, None)))])
    prog.append((0, h, d, test))
    prog += [(1, 1, rng.choice([1, 1, 2]), None)] * rng.randint(1, 4)
    if rng.random() < 0.3:
        prog += [(0, h, d, test)] + [(1, 1, 1, None)] * rng.randint(1, 2)
    return prog


def tmpl_far_stacks(rng):
    """Values parked on SEVERAL stacks with large numbers (31, 32, 33, 40, 64, 255, 256, 1000 ...) at the same time, each
    selected in turn, popped, compared and printed: stack numbers beyond any small table, two or more of them alive."""
    nums = rng.sample([31, 32, 33, 40, 63, 64, 65, 100, 255, 256, 1000, 12, 5], rng.randint(2, 4))
    prog = []
    for k, s in enumerate(nums):
        for _ in range(rng.randint(1, 2)):
            prog += push_value(rng.choice([65, 66, 72, 105, 48]) + k) + [(1, 1, s, None)]       # park a character on stack s
    order = list(nums)
    rng.shuffle(order)
    for s in order:
        prog += [(5, 1, s, None)]                                                              # select it (a copy of NaN / top is added)
        prog += [(1, 1, rng.choice([1, 1, 2]), rng.choice([None, None, ('?', None, None)]))] * rng.randint(1, 3)
        if rng.random() < 0.4:
            prog += [(0, 1, 3, None), (1, 2, rng.choice(nums), None)]                           # send something to another far stack
        prog += [(5, 1, 3, None)] if rng.random() < 0.5 else []
    return prog


def tmpl_zoo(rng, allow_input=True):
    """A long, mostly straight-line program that shows MANY different command forms to one run (and one compilation):
    every command type with 1-6 syllables, 0-12 dots, areas of every shape over all twelve hearts.  Values are kept
    flowing by pushes in between; hearts are spread so that most evaluations only register a label."""
    prog = [(0, 1, rng.choice([0, 1, 2, 3, 5, 9, 65, 66]), None) for _ in range(rng.randint(6, 14))]
    n = rng.randint(30, 90)
    hearts = list(range(2, 13))
    for k in range(n):
        r = rng.random()
        if r < 0.35:
            prog.append((0, rng.choice([1, 1, 2, 3]), rng.choice([0, 1, 2, 3, 4, 7, 11, 65]), None))
            continue
        t = rng.choice([0, 1, 1, 2, 2, 3, 3, 4, 4, 5, 5])
        h = rng.choice([1, 1, 2, 2, 3, 4, 5, 6])
        d = rng.choice([3, 3, 3, 4, 5, 6, 7, 8, 9, 10, 12, 1, 2, rng.choice([31, 32, 33, 40, 64, 100])] + ([0] if allow_input else []))
        if t == 5 and d in (1, 2):
            d = rng.choice([3, 4, 5])                      # selecting an output stack would end the show at the next pop
        if t == 5 and d == 0 and rng.random() < 0.7:
            d = 4
        a = rand_area(rng, [hearts[(k + j) % 11] for j in range(3)], p_none=0.45, p_more_q=0.5, p_more_b=0.4, p_slot_none=0.5, maxq=3, maxb=3)
        prog.append((t, h, d, a))
        if t == 5 and d != 3 and rng.random() < 0.8:
            # come back to stack 3, where the values are (carrying a value along)
            prog.append((5, 1, 3, None))
    return prog


def tmpl_big_fraction_output(rng):
    """Non-integers with very long terms but a small integer part (c + 1/b^e, c - 1/b^e, their negatives) are written
    to stdout / stderr: a positive one must appear as the character of its floor, a negative one as decimal text."""
    prog = []
    for _ in range(rng.randint(1, 4)):
        c = rng.choice([65, 66, 0x30, 0xac00, 0x1f600, 1, 0x10ffff, 0xd7ff, 0xe000, 0x7f, 0x80])
        b, e = rng.choice([(2, rng.choice([32, 33, 64, 65, 90, 96, 128])), (16, rng.choice([8, 16, 17, 24])), (64, rng.choice([11, 15, 16])),
                           (10, rng.randint(10, 40)), (7, rng.randint(12, 30)), (3, rng.randint(21, 60)), (6, rng.randint(13, 30))])
        prog += [(0, 1, b, None)] * e + [(2, e, 3, None), (4, 1, 5, None)]          # 1/b^e on stack 3 (the product copy goes to 5)
        if rng.random() < 0.3:
            prog += [(3, 1, 5, None)]                                               # -1/b^e
        prog += push_value(c) + [(1, 2, 3, None)]                                   # c +- 1/b^e
        if rng.random() < 0.25:
            prog += [(3, 1, 5, None)]                                               # negated: printed as text
        prog += [(1, 1, rng.choice([1, 1, 2]), None)]
    return prog


def tmpl_first_command_source(rng):
    """The very FIRST command of the program (location 0) becomes a jump SOURCE: it registers one label on its first
    evaluation (empty stack), is re-entered through that label later, takes its other branch and jumps forward; a ♡
    evaluated after that must return to location 0."""
    from .refinterp import Machine, Limits
    prog = None
    for _ in range(40):
        d0 = rng.choice([3, 4, 5, 6])
        dr = rng.choice([4, 5, 7])
        kA, kB = rng.sample([2, 3, 4, 5, 6, 7, 8, 9, 10, 11, 12], 2)
        op0, opm, opj, opr = [rng.choice(['?', '?', '!']) for _ in range(4)]

        def val(op, truth, count):
            if op == '?':
                return rng.choice([0, 1, count - 1]) if truth else rng.choice([count, count + 1, 9])
            return count if truth else rng.choice([0, count + 1, count - 1])
        x = lambda: rng.choice([0, 1, 2, 5, 9])
        anyv = lambda: rng.choice([0, 3, 9])
        seq = [x(), val(opm, True, d0), x(), val(opj, True, d0),                         # M registers kA | JB jumps to 0
               x(), val(op0, True, d0), x(), anyv(), x(), val(opj, False, d0),           # 0 jumps to M | M | JB falls
               x(), val(opr, True, dr),                                                  # R: ♡ -> back to 0
               x(), val(op0, True, d0), x(), anyv(), x(), val(opj, False, d0),           # 0 jumps to M | M | JB falls
               x(), val(opr, False, dr)]                                                 # R falls
        pr = lambda ch: ([(0, 1, ch, None), (1, 1, 1, None)] if rng.random() < 0.5 else [])
        prog = [(1, 1, d0, (op0, kA, kB))]
        prog += [(0, 1, v, None) for v in reversed(seq)]
        prog.append((1, 1, d0, (opm, kA, None)))
        prog += pr(65)
        prog.append((1, 1, d0, (opj, kB, None)))
        prog += pr(66)
        prog.append((1, 1, dr, (opr, 13, None)))
        prog += [(0, 1, 90, None), (1, 1, 1, None)] + ([(1, 1, 1, None)] if rng.random() < 0.3 else [])
        m = Machine(prog, '', Limits(steps=300))
        o, e, end = m.run()
        if not end.startswith('notadmitted') and m.st['heart_return_to_first_command']:
            break
    return prog


def tmpl_abandoned_return(rng):
    """A ♡ command at the top level of the input-free prefix returns to an EARLIER jump source; the continuation then
    performs more than 100 jumps from a DIFFERENT source, so the level-2 speculation of the ♡ command is given up and the
    command runs at run time instead - where ♡ must still mean the jump source recorded before the speculation."""
    from .progcheck import prefix_model_info
    prog = None
    for _ in range(30):
        prog = _abandoned_return_once(rng)
        k, cause, info = prefix_model_info(prog)
        if cause in ('budget', 'io') and info['first_step_return'] and info['latest_changed']:
            break
    return prog


def _abandoned_return_once(rng):
    pr1, pr2, pr3 = rng.sample([4, 5, 6, 7, 8], 3)
    k1, k2 = rng.sample([2, 3, 4, 5, 6, 7, 8, 9, 10, 11, 12], 2)
    big = 9
    x = lambda: rng.choice([0, 1, 2, 3, 9, 12])
    A = [(0, 1, 65, None), (1, 1, 1, None)] if rng.random() < 0.8 else []
    # consumption order from the top of stack 3 (see the command list below)
    top = [x(), x(), 0, x(), x(), big]           # L1 | J1 jumps | L1 | J1 falls
    top += [x(), x(), big]                        # L2 | J2 falls (jumps only on small values)
    top += [x(), 0]                               # K takes ♡ -> back to J1
    top += [x(), big, x()]                        # J1 falls | L2
    nz = 300 + rng.randint(6, 90)
    prog = [(0, 1, big, None)] * rng.randint(4, 8)
    prog += [(0, 1, 0, None), (5, nz, 3, None)]
    for v in reversed(top):
        prog.append((0, 1, v, None))
    filler = lambda: ([(0, 1, 66, None), (1, 1, rng.choice([1, 2]), None)] if rng.random() < 0.3 else [])
    prog.append((1, 1, pr1, k1))                                         # L1
    prog += filler()
    prog.append((1, 1, pr1, rng.choice([('?', k1, None), ('?', k1, ('?', None, None))])))   # J1
    prog += A
    prog.append((1, 1, pr2, k2))                                         # L2
    prog.append((1, 1, pr2, ('?', k2, None)))                            # J2: back to L2 while small values last
    prog += filler()
    prog.append((1, 1, pr3, rng.choice([('?', 13, None), ('?', 13, ('?', None, None)), ('!', None, ('?', 13, None))])))   # K
    prog += [(0, 1, 90, None), (1, 1, 1, None)]
    if rng.random() < 0.4:
        prog += read_fragment(rng) + [(1, 1, 1, None)]
    return prog


def tmpl_two_labels(rng):
    """ONE command with a compound area is visited twice before the first input read (a backward jump in between) with
    different comparison results and registers a different label each time, so two labels live on the same command;
    after the read, data-driven jumps go to both labels."""
    from .refinterp import Machine, Limits
    prog = None
    for _ in range(600):
        c = rng.choice([4, 5, 6, 8])
        pr = rng.choice([x for x in (4, 5, 6, 7) if x != c])
        k1, k2, kl = rng.sample([2, 3, 4, 5, 6, 7, 8, 9, 10, 11, 12], 3)
        op = rng.choice(['?', '?', '!'])
        xa = rng.choice([(op, k1, k2), (op, k1, ('?', k2, None)), ('?', ('!', k1, k1), k2), ('?', k1, ('!', None, k2)), ('?', ('!', k1, None), k2),
                         ('?', ('!', None, k1), ('?', k2, None))])
        prog = [(0, 1, rng.choice([0, 1, 2, c - 1, c, c + 1, 9, pr - 1, pr]), None) for _ in range(rng.randint(6, 20))]
        prog.append((1, 1, pr, kl))                               # loop label
        prog += [(0, 1, 66, None), (1, 1, rng.choice([1, 2]), None)] if rng.random() < 0.3 else []
        prog.append((1, 1, c, xa))                                # the command that will own two labels
        prog += [(0, 1, 65, None), (1, 1, 1, None)] if rng.random() < 0.6 else []
        prog.append((1, 1, pr, ('?', kl, None)))                  # back to the loop label while small values last
        prog += read_fragment(rng)
        order = [k1, k2] if rng.random() < 0.5 else [k2, k1]
        for h in order + ([rng.choice(order)] if rng.random() < 0.4 else []):
            prog.append((0, 1, c, ('?', None, rng.choice([('?', h, None), ('?', None, h), ('!', h, None), h]))))
            if rng.random() < 0.5:
                prog += [(0, 1, 90, None), (1, 1, 1, None)]
        m = Machine(prog, 'ab\ncd\n', Limits(steps=800))
        o, e, end = m.run()
        if not end.startswith('notadmitted') and m.st['jump_to_multi_label_command_after_read']:
            break
    return prog


def _hearts_of(a):
    out = []
    stack = [a]
    while stack:
        x = stack.pop()
        if isinstance(x, int):
            out.append(x)
        elif isinstance(x, tuple):
            stack.append(x[1])
            stack.append(x[2])
    return out


# ----------------------------------------------------------------------------------------- corpus
_CORPUS = None


def corpus():
    global _CORPUS
    if _CORPUS is None:
        progs = []
        d = os.path.join(ROOT, 'corpus')
        for name in sorted(os.listdir(d)):
            if name.endswith('.hyeong'):
                text = open(os.path.join(d, name), encoding='utf-8').read()
                cmds = refparse.commands_only(refparse.parse(text))
                if cmds:
                    progs.append(cmds)
        _CORPUS = progs
    return _CORPUS


def _mut_area(rng, a):
    if a is None:
        return rng.choice([None, 2, 13, ('?', None, 2)])
    if isinstance(a, int):
        return rng.choice([a, a, 2, 7, 13, None])
    op, l, r = a
    k = rng.random()
    if k < 0.1:
        return r
    if k < 0.2:
        op = '?' if op == '!' else '!'
    return (op, _mut_area(rng, l), _mut_area(rng, r))


def mutate(rng, prog):
    from .lang import area_shape_ok
    p = list(prog)
    for _ in range(rng.randint(1, 3)):
        i = rng.randrange(len(p))
        t, h, d, a = p[i]
        r = rng.random()
        if r < 0.25:
            d = max(0, d + rng.choice([-1, 1]))
        elif r < 0.4:
            h = max(1, h + rng.choice([-1, 1]))
        elif r < 0.5:
            t = rng.randint(0, 5)
        elif r < 0.6 and len(p) > 2:
            del p[i]
            continue
        elif r < 0.7:
            p.insert(i, p[rng.randrange(len(p))])
            continue
        elif r < 0.9:
            na = _mut_area(rng, a)
            if not area_shape_ok(na):
                continue
            a = na
        else:
            j = rng.randrange(len(p))
            p[i], p[j] = p[j], p[i]
            continue
        p[i] = (t, h, d, a)
    return p


# --------------------------------------------------------------------------------------- epilogue
def epilogue(rng, prog):
    """Select stacks the program used and print their top values, so that a latent difference in stack
    contents becomes a difference in observable output."""
    used = {3}
    for t, h, d, a in prog:
        if t != 0 and d >= 3:
            used.add(d)
    used = sorted(used)
    rng.shuffle(used)
    tail = []
    for s in used[:rng.randint(1, 4)]:
        tail.append((5, 1, s, None))
        for _ in range(rng.randint(1, 3)):
            tail.append(rng.choice([(1, 1, 1, None), (3, 1, 1, None), (1, 1, 2, None), (3, 1, 2, None)]))
    return prog + tail


# ------------------------------------------------------------------------------------------ stdin
STDINS = ['', 'ab\n', '\n\n\nx\n\n', 'a\n\nb', '\n', 'x' * 300 + '\ny', 'a\nxyz\n', 'AB\nCCCC\nD \n', 'q\nrs\ntuv\n', '12 34\nxyz', '가나\n\n😀z\n', 'x', '\n', '\n\n', 'a\r\nb\r\n', '7 8', '1111 1234', '3 5\n',
          '\x00\x01\n\x7f\x80', '퟿￿\U00010000\U0010ffff\n', 'line1\nline2\nline3\nline4\nline5\n',
          '{}"\\\n%s\n', '\u0085 x\x0cy\x1cz\n']


MULTILINE = ['한B\n', '한글 텍스트\nabc\n', '😀😀x\ny\n', 'é한😀\n\nz', '\u0085한\r\n가', 'a\nxyz\n', 'AB\nCCCC\nD \n', 'q\nrs\ntuv\n', 'line1\nline2\nline3\nline4\nline5\n', '\n\nab\n', 'x\r\ny\r\nz', '가\n나다\n😀\n']


def gen_stdin(rng):
    if rng.random() < 0.75:
        return rng.choice(STDINS)
    n = rng.randint(0, 40)
    s = []
    for _ in range(n):
        r = rng.random()
        if r < 0.15:
            s.append('\n')
        elif r < 0.55:
            s.append(chr(rng.randint(0x20, 0x7e)))
        elif r < 0.7:
            s.append(chr(rng.choice([0, 0x7f, 0x80, 0x7ff, 0x800, 0xd7ff, 0xe000, 0xffff, 0x10000, 0x10ffff, 0x0d])))
        else:
            c = rng.randint(0, 0x10ffff)
            if 0xd800 <= c <= 0xdfff:
                c = 0x41
            s.append(chr(c))
    return ''.join(s)


# ------------------------------------------------------------------------------------------- mixer
TEMPLATES = {
    'countdown': lambda rng, ai: tmpl_countdown(rng),
    'nested': lambda rng, ai: tmpl_nested(rng),
    'equal_loop': lambda rng, ai: tmpl_equal_loop(rng),
    'dispatch': lambda rng, ai: tmpl_dispatch(rng, ai),
    'heart_return': lambda rng, ai: tmpl_heart_return(rng),
    'fractions': lambda rng, ai: tmpl_fractions(rng),
    'hostile_output': lambda rng, ai: tmpl_hostile_output(rng),
    'exit': lambda rng, ai: tmpl_exit(rng),
    'stacky': lambda rng, ai: gen_stacky(rng),
    'nan_variants': lambda rng, ai: tmpl_nan_variants(rng, ai),
    'subroutine': lambda rng, ai: tmpl_subroutine(rng),
    'two_returns': lambda rng, ai: tmpl_two_returns(rng),
    'forward_jump': lambda rng, ai: tmpl_forward_jump(rng),
    'self_return': lambda rng, ai: tmpl_self_return(rng, with_read=False if not ai else None),
}
INPUT_TEMPLATES = {
    'stack0': lambda rng, ai: tmpl_stack0(rng),
    'handover': lambda rng, ai: tmpl_handover(rng),
    'handover_exit': lambda rng, ai: tmpl_handover_exit(rng),
    'big_handover': lambda rng, ai: tmpl_big_handover(rng),
    'pending_return': lambda rng, ai: tmpl_pending_return(rng),
    'label_table': lambda rng, ai: tmpl_label_table(rng),
    'two_labels': lambda rng, ai: tmpl_two_labels(rng),
    'zoo': lambda rng, ai: tmpl_zoo(rng, ai),
    'loop_carried': lambda rng, ai: tmpl_loop_carried(rng),
    'skip_loop': lambda rng, ai: tmpl_skip_loop(rng) if ai else tmpl_zoo(rng, ai),
    'far_stacks': lambda rng, ai: tmpl_far_stacks(rng),
    'big_fraction_output': lambda rng, ai: tmpl_big_fraction_output(rng),
    'first_command_source': lambda rng, ai: tmpl_first_command_source(rng),
    'abandoned_return': lambda rng, ai: tmpl_abandoned_return(rng),
    'stack0_data': lambda rng, ai: tmpl_stack0_data(rng),
}


def gen_tiny(rng, allow_input=True):
    """Boundary sizes: programs of one or two commands (a single block, an area on the only command, ...)."""
    hearts = [rng.choice([2, 5, 12]), 13]
    prog = []
    for _ in range(rng.choice([1, 1, 2])):
        t = rng.randint(0, 5)
        d = rng.choice([0, 1, 1, 2, 3, 3, 4]) if (allow_input or t == 0) else rng.choice([1, 2, 3, 3, 4])
        prog.append((t, rng.choice([1, 1, 2, 3]), d, rand_area(rng, hearts, p_none=0.25, p_slot_none=0.3)))
    return prog


def gen_case(rng, allow_input=True, weights=None):
    """-> (source_name, prog). Mix of the four sources."""
    w = weights or {'random': 0.3, 'template': 0.35, 'mutant': 0.35}
    r = rng.random()
    if rng.random() < 0.04:
        return 'tiny', gen_tiny(rng, allow_input)
    if r < w['random']:
        name, prog = 'random', gen_random(rng, allow_input)
    elif r < w['random'] + w['template']:
        pool = dict(TEMPLATES)
        if allow_input:
            pool.update(INPUT_TEMPLATES)
        name = rng.choice(sorted(pool))
        prog = pool[name](rng, allow_input)
        name = 'tmpl:' + name
    else:
        base = rng.choice(corpus()) if rng.random() < 0.6 else None
        if base is None:
            pool = dict(TEMPLATES)
            if allow_input:
                pool.update(INPUT_TEMPLATES)
            base = pool[rng.choice(sorted(pool))](rng, allow_input)
        name, prog = 'mutant', mutate(rng, base)
        if not allow_input:
            prog = [(t, h, (3 if (t != 0 and d == 0) else d), a) for (t, h, d, a) in prog]
    if rng.random() < 0.5:
        prog = epilogue(rng, prog)
    return name, prog


__all__ = ['gen_case', 'gen_random', 'gen_stdin', 'render_prog', 'mutate', 'corpus', 'epilogue']
