"""C12 — entering a program line by line interactively equals running it whole.

Events: `hyeong --color never` (interactive front end) with lines on stdin: the transcript split at the
`> ` prompts into one chunk per entered line; each chunk's `[stdout] ...` / `[stderr] ...` payloads; the
exit status.  Second observation without alphabet restriction: hv_trace mode inc (one execute() per
command on a persistent state — the interactive front end's mechanism) against the reference run.
Oracle: the reference interpreter runs the WHOLE program once, recording output per top-level command;
cutting that record at the same command boundaries predicts every line's output.
"""
import os
import time
from . import common as C
from . import gen
from . import progcheck as P
from . import tracecheck as T
from .c11 import PROMPT

# characters that would make the line-oriented transcript ambiguous (line breaks, the prompt and tag characters); other
# control characters pass through the `[stdout] ...` lines unchanged and are compared like any text
BAD_OUT = set('\n\r[>') | {'\x85', '\u2028', '\u2029', '\x0b', '\x0c', '\x1c', '\x1d', '\x1e'}
from .lang import render_cmd
from .refinterp import Machine, Limits, Exit, EncErr, NotAdmitted

PID = 'C12'
_RUN = {}


def whole_run_by_command(prog, lim):
    """Run the whole program once; -> (per_command [(out, err)], ending) where per_command[k] is what was
    written between the first time control passed command k-1 and the first time it passed command k."""
    m = Machine(prog, '', lim)
    per = []
    ending = ('end', 0)
    loc = 0
    n = len(prog)
    top = 0
    o0 = e0 = 0
    try:
        while top < n:
            loc = top
            while loc <= top:
                m.steps += 1
                if m.steps > lim.steps:
                    raise NotAdmitted('step budget')
                loc = m.step(loc)
            per.append((''.join(m.out[o0:]), ''.join(m.err[e0:])))
            o0, e0 = len(m.out), len(m.err)
            top += 1
            if loc > top:
                # cannot happen: control passes command k only towards k+1
                raise AssertionError('control skipped a command')
    except Exit as ex:
        per.append((''.join(m.out[o0:]), ''.join(m.err[e0:])))
        ending = ('exit', ex.code)
    except EncErr:
        per.append((''.join(m.out[o0:]), ''.join(m.err[e0:])))
        ending = ('encerr', 1)
    return m, per, ending


def extract(transcript):
    parts = PROMPT.split(transcript)
    segs = []
    for part in parts[1:]:
        ev = []
        for ln in part.split('\n'):
            if ln.startswith('[stdout] '):
                ev.append(('out', ln[9:]))
            elif ln.startswith('[stderr] '):
                ev.append(('err', ln[9:]))
        segs.append(ev)
    return parts[0], segs


def _session(rng, prog, per, ending, force_one_line=False):
    """Cut the program into lines; -> (script lines, expected events per line, expected rc, stats)"""
    stats = {'lines_with_code': 0, 'one_command_per_line': 0, 'all_on_one_line': 0, 'blank_or_help': 0, 'clear': 0,
             'jump_across_lines': 0}
    mode = rng.random()
    pcut = 1.0 if mode < 0.2 else (0.0 if mode < 0.3 else 0.5)
    if force_one_line:
        pcut = 0.0
    if pcut == 1.0:
        stats['one_command_per_line'] = 1
    if pcut == 0.0:
        stats['all_on_one_line'] = 1
    script, want = [], []
    # optional: some other program first (leaving stacks, labels and a last jump source behind), then `clear`
    if rng.random() < 0.3:
        junk = None
        for _ in range(6):
            k = rng.random()
            if k < 0.25:
                cand = [(0, 1, 2, None), (0, 1, 65, None), (1, 1, 1, None), (0, 1, 1, 2)]
            elif k < 0.5:
                # label at 1, jump taken from 2 (last jump source = 2), falls through the second time
                cand = [(0, 1, 1, None), (1, 1, 3, 7), (1, 1, 3, ('?', 7, None)), (0, 1, 72, None), (1, 1, 1, None)]
                cand = [(0, 1, 5, None)] * rng.randint(0, 2) + cand
            elif k < 0.75:
                cand = gen.tmpl_countdown(rng, iters=rng.choice([2, 3]))
            else:
                cand = gen.tmpl_heart_return(rng)
            try:
                jm, jper, jend = whole_run_by_command(cand, Limits(steps=500))
            except NotAdmitted:
                continue
            if jend[0] != 'end' or jm.st['stdin_reads'] or (BAD_OUT & set(''.join(o + e for o, e in jper))):
                continue
            junk = (cand, jper, jm)
            break
        if junk is not None:
            cand, jper, jm = junk
            for c, (o, e) in zip(cand, jper):
                script.append(render_cmd(c))
                ev = []
                if o:
                    ev.append(('out', o))
                if e:
                    ev.append(('err', e))
                want.append(ev)
            # front-end words directly after one another (help / blank / clear with no code line in between)
            for _ in range(rng.choice([0, 0, 1, 1, 2])):
                script.append(rng.choice(['help', 'help', '', '  ']))
                want.append([])
                stats['special_lines_back_to_back'] = stats.get('special_lines_back_to_back', 0) + 1
            script.append(rng.choice(['clear', ' clear ', 'clear']))
            want.append([])
            stats['clear'] = 1
            for _ in range(rng.choice([0, 0, 0, 1, 2])):
                script.append(rng.choice(['help', '', 'clear']))
                want.append([])
                stats['special_lines_back_to_back'] = stats.get('special_lines_back_to_back', 0) + 1
            if jm.latest is not None:
                stats['clear_after_a_jump'] = 1
    line, lo, le = [], [], []
    nexec = len(per)          # commands that (at least partly) executed
    k = 0
    rc = 0
    ended = False
    while k < len(prog) and not ended:
        line.append(prog[k])
        if k < nexec:
            lo.append(per[k][0])
            le.append(per[k][1])
        last_executed = (k == nexec - 1) and ending[0] != 'end'
        cut = last_executed or k == len(prog) - 1 or rng.random() < pcut
        if cut or last_executed:
            # the rest of the line after an exiting / failing command never runs; put some there anyway
            extra = []
            if last_executed:
                j = k + 1
                while j < len(prog) and rng.random() < 0.5:
                    extra.append(prog[j])
                    j += 1
            lead = rng.choice(['', ' ', '\t'])
            if rng.random() < 0.3:
                # text before the first command of a line has no effect (the line is parsed on its own): dots,
                # hearts, ?/!, foreign text, plain Hangul, stray end syllables
                lead += ''.join(rng.choice(['.', '…', '♥', '💖', '?', '!', 'zz', '가', '엉', ' ', '잠']) for _ in range(rng.randint(1, 5))) + ' '
                if rng.random() < 0.3:
                    # plain words - including the front end's own - are foreign text too when commands follow on the line
                    lead = rng.choice(['clear ', 'help ', 'exit ', 'Clear ', 'EXIT: ', 'clear the top: ', 'help me ', 'exit(0) ', 'next ', 'state ']) + lead
                stats['lines_with_leading_noise'] = stats.get('lines_with_leading_noise', 0) + 1
            trail = ''
            if rng.random() < 0.15:
                # a start syllable with no end syllable later IN THIS LINE is filler too
                trail = ' ' + rng.choice(['혀', '하', '흐', '끝 혀', 'end'])
            script.append(lead + ' '.join(render_cmd(c) for c in line + extra) + trail)
            ev = []
            o, e = ''.join(lo), ''.join(le)
            if o:
                ev.append(('out', o))
            if e:
                ev.append(('err', e))
            want.append(ev)
            stats['lines_with_code'] += 1
            line, lo, le = [], [], []
            if last_executed:
                ended = True
                rc = ending[1]
                break
            if rng.random() < 0.2:
                for _ in range(rng.choice([1, 1, 1, 2, 3])):
                    script.append(rng.choice(['', '   ', 'help', 'help', '\t']))
                    want.append([])
                    stats['blank_or_help'] += 1
        k += 1
    if not ended and rng.random() < 0.2:
        if rng.random() < 0.4:
            script.append(rng.choice(['help', '']))
            want.append([])
        script.append('exit')
        want.append([])
        if rng.random() < 0.5:
            # nothing after `exit` may run
            script.append(render_cmd((0, 1, 65, None)) + ' ' + render_cmd((1, 1, 1, None)))
            want.append(None)
    return script, want, rc, stats


def _case(i):
    tier, seed, rundir = _RUN['tier'], _RUN['seed'], _RUN['dir']
    rng = C.rng_for(seed, PID, tier, i)
    res = {'i': i, 'items': [], 'hist': {}, 'status': 'ok'}
    bulk = False
    if i % 150 == 7 or rng.random() < 0.003:
        # ONE entered line that writes thousands of multi-byte characters (several KiB: beyond any 4 / 8 KiB buffer of the
        # output path), with a short ASCII shift so that buffer boundaries fall inside characters
        name = 'bulk_output'
        bulk = True
        code = rng.choice([0xac00, 0xd55c, 0xe9, 0x1f600, 0x20ac])
        sink = rng.choice([1, 1, 2])
        nrep = rng.choice([1366, 2731, 2800, 3000, 4097, 5500])
        prog = gen.print_chars([rng.choice([65, 66])] * rng.randint(0, 3), 3, sink)
        if rng.random() < 0.5:
            # one duplicate command writes nrep copies straight to the sink (the current stack becomes the sink)
            prog += gen.push_value(code, 3) + [(5, nrep, sink, None)] + [(0, 1, rng.choice([65, 66, 67]), None)] * rng.randint(0, 2)
        else:
            nrep = min(nrep, 2300)
            prog += gen.push_value(code, 3) + [(5, nrep, 4, None)] + [(1, 1, sink, None)] * nrep
    elif i % 9 == 4:
        # return-rich programs: ♡ to the same command, two ♡ in a row, the first command as a jump source, call / return
        r = rng.random()
        if r < 0.4:
            name, prog = 'tmpl:self_return', gen.tmpl_self_return(rng, with_read=False)
        elif r < 0.6:
            name, prog = 'tmpl:two_returns', gen.tmpl_two_returns(rng)
        elif r < 0.8:
            name, prog = 'tmpl:first_command_source', gen.tmpl_first_command_source(rng)
        else:
            name, prog = 'tmpl:heart_return', gen.tmpl_heart_return(rng)
    elif rng.random() < 0.15:
        # a ♡ evaluated before any jump of this program: must do nothing in a fresh (or cleared) state
        name = 'early_heart'
        # (sometimes further down than any jump source an earlier, cleared program can have left behind)
        prog = [(0, 1, rng.randint(0, 3), None) for _ in range(rng.choice([1, 2, 3, 4, 6, 9, 14, 20]))]
        prog += [(rng.choice([0, 1]), 1, rng.choice([1, 3]), rng.choice([13, ('?', 13, None), ('?', None, 13), ('!', 13, 13)]))]
        prog += gen.print_chars([rng.choice([65, 66, 67])], 3, rng.choice([1, 2])) + gen.gen_random(rng, False, 1, 4)
    else:
        name, prog = gen.gen_case(rng, allow_input=False, weights={'random': 0.3, 'template': 0.3, 'mutant': 0.4})
    lim = Limits(steps=2500)
    try:
        m, per, ending = whole_run_by_command(prog, lim)
    except NotAdmitted:
        res['status'] = 'reject:budget'
        return res
    if m.st['stdin_reads']:
        res['status'] = 'reject:input'
        return res
    allout = ''.join(o + e for o, e in per)
    text = P.render_text(rng, prog)
    if text is None:
        res['status'] = 'reject:render'
        return res
    res['src'] = name
    res['key'] = C.sha(text + str(i))
    res['hist']['jumps'] = 1 if m.st['jumps'] else 0
    res['hist']['ending:' + ending[0]] = 1
    # ---- library path, no alphabet restriction: one execute() per command vs the reference
    path = P.write_program(rundir, 'p%d_%d.hyeong' % (os.getpid(), i), text)
    tpath = os.path.join(rundir, 't%d_%d.jsonl' % (os.getpid(), i))
    try:
        if bulk and len(prog) > 300:
            # thousands of commands over a stack of thousands of values: the per-command state dump of the library
            # trace would dominate the run; this shape is about the front end's output path
            proc, recs, terr = None, None, 'skipped'
            res['hist']['library_trace_skipped_for_bulk'] = 1
        else:
            proc, recs, terr = T.run_trace('inc', path, b'', tpath, lim.steps * 2)
        if terr == 'skipped':
            pass
        elif not (proc.wall_timeout or proc.cpu_killed or terr):
            if proc.crashed:
                res['items'].append(('v', 'inc-crash:' + res['key'], 'command-by-command execution crashed', {'program': text, 'stderr': C.clip(proc.err, 400)}))
            else:
                diff, info = T.compare('inc', prog, '', proc, recs, lim)
                res['hist']['library_commands_compared'] = info.get('steps_compared', 0)
                if diff is not None:
                    res['items'].append(('v', 'inc:' + res['key'], 'feeding the program command by command differs from running it whole',
                                         {'program': text, 'divergence': diff}))
                    return res
        else:
            res['items'].append(('i', 'library trace unusable ' + res['key']))
    finally:
        for f in (path, tpath):
            try:
                os.unlink(f)
            except OSError:
                pass
    # ---- binary path
    if BAD_OUT & set(allout):
        res['hist']['binary_skipped_alphabet'] = 1
        return res
    script, want, rc, stats = _session(rng, prog, per, ending, force_one_line=bulk)
    if bulk:
        res['hist']['bulk_output_sessions'] = 1
    C.add_hist(res['hist'], stats)
    if stats.get('clear_after_a_jump') and name == 'early_heart':
        res['hist']['early_heart_after_clear_after_jump'] = 1
    if m.st['jumps'] and stats['lines_with_code'] > 1:
        res['hist']['jump_across_lines'] = 1
    eol = '\r\n' if rng.random() < 0.15 else '\n'
    if eol != '\n':
        res['hist']['crlf_sessions'] = 1
    last_eol = '' if (script and script[-1].strip() and rng.random() < 0.2) else eol     # a final line without line break
    p = C.run_proc([C.HYEONG, '--color', 'never'], (eol.join(script) + last_eol).encode('utf-8'), cpu=20)
    info = {'program': text, 'lines_entered': script, 'source': name,
            'replay': "printf '%%s\\n' <lines> | %s --color never" % C.HYEONG}
    res['hist']['sessions'] = 1
    if p.wall_timeout:
        res['items'].append(('i', 'wall-clock watchdog ' + res['key']))
        return res
    if p.cpu_killed:
        res['items'].append(('v', 'hang:' + res['key'], 'interactive session did not finish (CPU limit)', info))
        return res
    if p.crashed:
        res['items'].append(('v', 'crash:' + res['key'], 'interactive front end crashed', dict(info, rc=p.rc, stderr=C.clip(p.err, 400))))
        return res
    head, got = extract(p.outs())
    while len(got) > len(want) and not got[-1]:
        got.pop()
    problem = None
    nlines = len(want)
    judged = nlines - 1 if ending[0] == 'encerr' else nlines     # the failing line's buffered output is not judged
    for k in range(max(len(got), judged)):
        g = got[k] if k < len(got) else None
        w = want[k] if k < len(want) else None
        if k >= judged:
            break
        if g != w:
            problem = {'line_index': k, 'line': C.clip(script[k] if k < len(script) else '(none)', 200),
                       'expected': C.clip(str(w), 500), 'observed': C.clip(str(g), 500)}
            break
    if problem is None:
        if ending[0] == 'encerr':
            if p.rc != 1 or not p.errs().strip():
                problem = {'what': 'encoding error expected: exit 1 with diagnostic', 'rc': p.rc, 'stderr': C.clip(p.err, 300)}
        elif p.rc != rc:
            problem = {'what': 'exit status', 'expected': rc, 'observed': p.rc}
        elif p.err:
            problem = {'what': 'text on stderr', 'stderr': C.clip(p.err, 300)}
    if problem is not None:
        res['items'].append(('v', 'session:' + res['key'], 'interactive session differs from running the program whole',
                             dict(info, problem=problem, transcript_tail=C.clip(p.outs()[-500:], 500))))
    res['sample'] = {'lines': [C.clip(s, 80) for s in script[:8]], 'expected_per_line': [str(w) for w in want[:8]], 'exit': rc}
    return res


def main(tier, seed):
    t0 = time.time()
    rep = C.Reporter(PID, tier, seed)
    C.build(['repo', 'core'])
    n = 4000 if tier == 'quick' else 150000
    rundir = C.mktmp(PID)
    _RUN.update(tier=tier, seed=seed, dir=rundir)
    results = C.pmap(_case, list(range(n)), chunksize=4, stop_after_bad=40,
                     is_bad=lambda r: any(it[0] == 'v' for it in r['items']))
    hist, rejects = {}, {}
    ev = 0
    keys = set()
    samples = []
    for r in results:
        rep.merge(r['items'])
        if r['status'] != 'ok':
            rejects[r['status']] = rejects.get(r['status'], 0) + 1
            continue
        ev += 1
        C.add_hist(hist, r['hist'])
        if r['hist'].get('lines_with_code', 0) > 1 or r['hist'].get('library_commands_compared', 0) > 3:
            keys.add(r['key'])
        if 'sample' in r and len(samples) < 4 and r['hist'].get('jump_across_lines'):
            samples.append(r['sample'])
    if not samples:
        samples = [r['sample'] for r in results if 'sample' in r][:3]
    cov = {
        'evaluations': ev, 'distinct_nontrivial': len(keys),
        'rule': 'input-free admitted programs (random/template/mutant mix). Library path (all output alphabets): hv_trace feeds the program '
                'command by command through execute() on a persistent state and every top-level state/output is compared with the whole-program '
                'reference run. Binary path (output without newline, [, >, controls): the program is cut at random command boundaries into lines '
                '(one per line, all on one line, random), with blank/help lines, an optional other program + `clear` first, trailing commands after '
                'an exiting command, `exit`; per entered line the [stdout]/[stderr] payloads and the exit status are compared with the whole run '
                'cut at the same boundaries. non-trivial = more than one code line or > 3 commands compared; distinct per case.',
        'samples': samples, 'generated': n, 'rejected': rejects, 'histogram': hist,
    }
    assumptions = ['prompt/help/banner wording is not compared', 'the line on which an encoding error occurs is judged only by exit status 1 + diagnostic',
                   'binary sessions restrict the output alphabet; unrestricted outputs are covered by the library path']
    minimum = {'cases': (ev, 500), 'binary sessions': (hist.get('sessions', 0), 300), 'jump across lines': (hist.get('jump_across_lines', 0), 15),
               'clear': (hist.get('clear', 0), 30), 'bulk output sessions': (hist.get('bulk_output_sessions', 0), 8), 'clear after a jump': (hist.get('clear_after_a_jump', 0), 15), 'library commands compared': (hist.get('library_commands_compared', 0), 5000)}
    return rep.finish(cov, assumptions, t0, minimum)
