"""C01 — the interpreter executes every program according to the language definition.

Events: (a) library traces of the real interpreter core from hv_trace: after EVERY command executed by
execute_one (mode one, the debugger's path) and after every top-level command executed by execute
(mode inc, the path of `hyeong run -O0`): next command, selected stack, contents of all stacks, output
written; (b) `hyeong run -O0 --color never` stdout/stderr/exit status through real pipes.
Oracle: the reference interpreter (hv/refinterp.py) replayed in lock-step.
"""
import os
import time
from . import common as C
from . import gen
from . import progcheck as P
from . import tracecheck as T

PID = 'C01'
_RUN = {}
NONTRIVIAL = {'jump', 'stdin', 'exit0', 'exit1', 'cmp_frac', 'cmp_nan', 'print_frac', 'encerr', 'heart_return'}


def _case(i):
    tier, seed, rundir = _RUN['tier'], _RUN['seed'], _RUN['dir']
    rng = C.rng_for(seed, PID, tier, i)
    res = {'i': i, 'items': [], 'feat': [], 'status': 'ok', 'hist': {}}
    if i % 12 == 2:
        from .c07 import gen_compare_prog
        name, prog = 'compare_program', gen_compare_prog(rng, nan_bias=rng.random() < 0.3)[0]
    elif i % 12 == 5:
        name, prog = 'tmpl:stack0_data', gen.tmpl_stack0_data(rng)
    elif i % 12 == 9:
        name, prog = 'tmpl:forward_jump', gen.tmpl_forward_jump(rng)
    elif i % 24 == 11:
        name, prog = 'tmpl:zoo', gen.tmpl_zoo(rng)
    elif i % 24 == 7:
        name, prog = 'tmpl:big_fraction_output', gen.tmpl_big_fraction_output(rng)
    elif i % 24 == 15:
        name, prog = 'tmpl:first_command_source', gen.tmpl_first_command_source(rng)
        if rng.random() < 0.3:
            prog = gen.epilogue(rng, prog)
    else:
        name, prog = gen.gen_case(rng, allow_input=True)
    stdin = gen.gen_stdin(rng)
    res['src'] = name
    text = P.render_text(rng, prog)
    if text is None:
        res['status'] = 'reject:render'
        return res
    lim = P.default_limits(tier, loopy=True)
    m, ro, re_, rend = P.admit(prog, stdin, lim)
    if rend.startswith('notadmitted'):
        res['status'] = 'reject:' + rend.split(':', 1)[1]
        return res
    feat = P.features(m, rend)
    res['feat'] = sorted(feat)
    res['key'] = C.sha(text + '\0' + stdin)
    res['steps'] = m.steps
    path = P.write_program(rundir, 'p%d_%d.hyeong' % (os.getpid(), i), text)
    tpath = os.path.join(rundir, 't%d_%d.jsonl' % (os.getpid(), i))
    sb = stdin.encode('utf-8')
    base = {'program': text, 'stdin': stdin, 'source': name, 'features': sorted(feat),
            'reference': {'end': rend, 'stdout': C.clip(ro, 400), 'stderr': C.clip(re_, 400), 'steps': m.steps}}
    try:
        for mode in ('one', 'inc'):
            proc, recs, terr = T.run_trace(mode, path, sb, tpath, lim.steps * 2 + 10)
            if proc.wall_timeout or proc.cpu_killed or terr:
                # the CPU limit here bounds the HARNESS (it formats every stack after every step); the
                # interpreter's own termination is judged logically through hv_trace's step budget
                res['items'].append(('i', 'trace %s %s: %s' % (mode, res['key'], terr or 'harness watchdog (cpu/wall)')))
                continue
            if proc.crashed:
                res['items'].append(('v', 'T%s-crash:%s' % (mode, res['key']), 'interpreter core crashed', dict(
                    base, mode=mode, rc=proc.rc, stderr=C.clip(proc.err, 600))))
                continue
            diff, info = T.compare(mode, prog, stdin, proc, recs, lim)
            res['hist']['steps_compared_' + mode] = info.get('steps_compared', 0)
            res['hist']['chunks_' + mode] = info.get('chunks', 0)
            if info.get('aborted'):
                res['items'].append(('i', 'trace %s %s: %s' % (mode, res['key'], info['aborted'])))
            if diff is not None:
                res['items'].append(('v', 'T%s:%s' % (mode, res['key']),
                                     'trace diverges from the language definition', dict(base, divergence=diff)))
                return res      # one witness per case is enough; a diverging run may not terminate
        obs = P.run_interp(C.HYEONG, path, 0, sb, hint=(re_, rend))
        if obs.kind == 'cpu':
            obs = P.run_interp(C.HYEONG, path, 0, sb, cpu=30, hint=(re_, rend))
        d = P.compare_to_ref(obs, ro, re_, rend, lenient_encerr=False)
        if d is not None:
            if d.startswith('INCONCLUSIVE'):
                res['items'].append(('i', 'binary %s %s' % (res['key'], d)))
            else:
                res['items'].append(('v', 'B:%s' % res['key'], '`run -O0` differs from the language definition',
                                     dict(base, difference=d, observed=obs.brief())))
        res['sample'] = {'program': C.clip(text, 160), 'stdin': C.clip(stdin, 40), 'end': rend, 'steps': m.steps,
                         'stdout': C.clip(ro, 60), 'features': sorted(feat)}
        return res
    finally:
        for p_ in (path, tpath):
            try:
                os.unlink(p_)
            except OSError:
                pass


def _miri_case(i):
    """One small program through hv_trace (mode one) under Miri, judged by the same lock-step oracle."""
    from . import miri
    seed, rundir = _RUN['seed'], _RUN['dir']
    rng = C.rng_for(seed, PID, 'miri', i)
    for _ in range(200):
        name, prog = gen.gen_case(rng, allow_input=True)
        stdin = rng.choice(['', 'ab\n', '가\n😀z'])
        text = P.render_text(rng, prog)
        if text is None or len(prog) > 14:
            continue
        lim = P.Limits(steps=60, bits=200)
        m, ro, re_, rend = P.admit(prog, stdin, lim)
        if not rend.startswith('notadmitted') and m.steps >= 4:
            break
    else:
        return {'items': [], 'ran': 0}
    path = P.write_program(rundir, 'm%d_%d.hyeong' % (os.getpid(), i), text)
    tpath = os.path.join(rundir, 'mt%d_%d.jsonl' % (os.getpid(), i))
    try:
        st, out, err = miri.miri_run('hv_trace', ['one', path, tpath, '200'], stdin.encode('utf-8'), timeout=1200)
        if st == 'ub':
            return {'items': [('v', 'miri-ub:' + C.sha(text), 'Miri reported undefined behaviour in the interpreter', {'program': text, 'stdin': stdin, 'stderr': C.clip(err, 3000)})], 'ran': 1}
        if st != 'ok':
            return {'items': [('i', 'miri trace did not complete (%s)' % st)], 'ran': 0}
        import json as _json
        recs = [_json.loads(l) for l in open(tpath, encoding='utf-8') if l.strip()]

        class _P:            # exit status is not observable through `cargo miri run` reliably: judged from the trace
            rc = EXIT_OF.get(rend, 1)
            err = b''
        diff, info = T.compare('one', prog, stdin, _P, recs, lim)
        if diff is not None:
            return {'items': [('v', 'miri-trace:' + C.sha(text), 'trace under Miri diverges from the language definition', {'program': text, 'stdin': stdin, 'divergence': diff})], 'ran': 1}
        return {'items': [], 'ran': 1, 'steps': info.get('steps_compared', 0)}
    finally:
        for f in (path, tpath):
            try:
                os.unlink(f)
            except OSError:
                pass


EXIT_OF = {'end': 0, 'exit0': 0, 'exit1': 1, 'encerr': 1}


def main(tier, seed):
    t0 = time.time()
    rep = C.Reporter(PID, tier, seed)
    C.build(['repo', 'core'])
    C.sweep_stale_tmp()
    n = 4000 if tier == 'quick' else 150000
    rundir = C.mktmp(PID)
    _RUN.update(tier=tier, seed=seed, dir=rundir)
    results = C.pmap(_case, list(range(n)), chunksize=4, stop_after_bad=60,
                     is_bad=lambda r: any(it[0] == 'v' for it in r['items']))
    hist, srcs, featc, rejects = {}, {}, {}, {}
    evaluated = 0
    nontrivial = set()
    samples = []
    for r in results:
        rep.merge(r['items'])
        if r['status'].startswith('reject'):
            rejects[r['status']] = rejects.get(r['status'], 0) + 1
            continue
        evaluated += 1
        srcs[r['src']] = srcs.get(r['src'], 0) + 1
        C.add_hist(hist, r['hist'])
        for f in r['feat']:
            featc[f] = featc.get(f, 0) + 1
        if NONTRIVIAL & set(r['feat']):
            nontrivial.add(r['key'])
            if 'sample' in r and len(samples) < 6 and (len(r['feat']) >= 4 or r['i'] % 40 == 0):
                samples.append(r['sample'])
    if not samples:
        samples = [r['sample'] for r in results if 'sample' in r][:3]
    miri_info = {}
    if tier == 'thorough':
        from . import miri
        miri.miri_run('hv_parse', [], b'\n', timeout=1500)          # warm the Miri build once
        mres = C.pmap(_miri_case, list(range(16)), procs=8)
        for r in mres:
            rep.merge(r['items'])
        miri_info = {'miri_programs': sum(r['ran'] for r in mres), 'miri_steps_compared': sum(r.get('steps', 0) for r in mres),
                     'unsafe_occurrences_in_repo_src': miri.unsafe_occurrences()}
    cov = {
        'evaluations': evaluated, 'distinct_nontrivial': len(nontrivial),
        'rule': 'cases = (program from random/template/corpus-mutation generators + optional observation epilogue) x stdin text, admitted iff the '
                'reference interpreter finishes within the step/value/output caps. Each case: hv_trace mode one (state after every command), '
                'mode inc (state after every top-level command) and `hyeong run -O0` are compared with the reference. non-trivial = executed a '
                'jump or ♡ return, read stdin, exited via stack 1/2, compared a non-integer or NaN, printed a fraction, or hit an encoding '
                'error; distinct = by hash of program text + stdin.',
        'samples': samples, 'generated': n, 'rejected_by_admission': rejects, 'sources': srcs,
        'features_observed': featc,
        'commands_compared_step_by_step': hist.get('steps_compared_one', 0),
        'top_level_commands_compared': hist.get('steps_compared_inc', 0),
        'output_chunks_observed': hist.get('chunks_one', 0) + hist.get('chunks_inc', 0),
        'binary_runs': evaluated,
    }
    cov.update(miri_info)
    assumptions = [
        'reference interpreter hv/refinterp.py (Python Fraction) is the independent executable definition',
        'touched-but-empty stacks and the label table are representation details and are not compared; control flow is compared through the next-command index',
        'writing a value >= 2^32 to an output stack and counts >= 2^31 are excluded (declared unspecified)',
        'dev-profile build of the current /repo working tree',
    ]
    minimum = {'evaluations': (evaluated, 300 if tier == 'quick' else 5000),
               'jump': (featc.get('jump', 0), 50), 'stdin': (featc.get('stdin', 0), 30),
               'exit': (featc.get('exit0', 0) + featc.get('exit1', 0), 30),
               'steps': (hist.get('steps_compared_one', 0), 5000),
               'heart_after_heart': (featc.get('heart_after_heart', 0), 5),
               'forward_jump': (featc.get('forward_jump', 0), 10),
               'heart_return_to_first_command': (featc.get('heart_return_to_first_command', 0), 15),
               'stack0_used_as_data': (featc.get('stack0_used_as_data', 0), 30)}
    return rep.finish(cov, assumptions, t0, minimum)
