"""Reference interpreter: an independent, executable definition of Hyeo-ung used as the oracle.

Written from the language rules as stated in the properties / repository docs, deliberately in a
different style from src/core/execute.rs: values are fractions.Fraction (NaN = None), stacks are a
dict of lists, exits and encoding errors are exceptions.

Rules implemented (see DESIGN.md section 3.1):
  * value v written to stack 1 / 2: NaN or v < 0 -> decimal text of -v ("p", "p/q", NaN text);
    otherwise the character with code point floor(v); not a scalar value -> EncErr;
    floor(v) >= 2^32 is declared unspecified by the sources -> NotAdmitted.
  * pop from stack 1 -> Exit(0), from stack 2 -> Exit(1); pop from stack 0 when it is empty first
    refills it from the next stdin line INCLUDING its terminator (only '\n' terminates a line);
    at end of input nothing is pushed and the pop yields NaN; any other empty pop yields NaN;
    NaN is never pushed onto an empty stack.
  * six commands; area evaluation; labels; last jump source.
"""
from fractions import Fraction
from .lang import NANTXT

NAN = None


class Exit(Exception):
    def __init__(self, code):
        self.code = code


class EncErr(Exception):
    def __init__(self, n):
        self.n = n


class NotAdmitted(Exception):
    """The case leaves the claimed/affordable domain (budget, size cap, unspecified behaviour)."""

    def __init__(self, why):
        self.why = why


def numtxt(v):
    if v is NAN:
        return NANTXT
    if v.denominator == 1:
        return str(v.numerator)
    return "%d/%d" % (v.numerator, v.denominator)


def split_lines(text):
    """Lines as Rust's BufRead::read_line delivers them: split after every '\n' only."""
    lines = []
    i = 0
    n = len(text)
    while i < n:
        j = text.find('\n', i)
        if j < 0:
            lines.append(text[i:])
            break
        lines.append(text[i:j + 1])
        i = j + 1
    return lines


class Limits:
    def __init__(self, steps=3000, bits=600, out_chars=65536, stack_len=200000):
        self.steps = steps
        self.bits = bits
        self.out_chars = out_chars
        self.stack_len = stack_len


class Machine:
    def __init__(self, prog, stdin_text='', limits=None):
        self.prog = prog
        self.stacks = {}
        self.cur = 3
        self.labels = {}
        self.latest = None
        self.out = []
        self.err = []
        self.nout = 0
        self.lines = split_lines(stdin_text)
        self.li = 0
        self.lim = limits or Limits()
        self.steps = 0
        # observation counters (feature histogram for evidence)
        self.st = {
            'jumps': 0, 'heart_returns': 0, 'labels_set': 0, 'stdin_reads': 0, 'eof_reads': 0,
            'cmp_q_left': 0, 'cmp_q_right': 0, 'cmp_b_left': 0, 'cmp_b_right': 0, 'cmp_nan': 0,
            'cmp_frac': 0, 'cmp_nonzero_count': 0, 'print_char': 0, 'print_num': 0, 'print_frac': 0,
            'print_nan': 0, 'nan_pops': 0, 'nan_dropped_on_empty': 0, 'multi_operand': 0,
            'fractions_made': 0, 'negatives_made': 0, 'push_stack0': 0, 'heart_after_heart': 0, 'jump_back_over_first_read': 0, 'heart_return_to_self': 0, 'forward_jumps': 0, 'pops_of_own_values_from_stack0': 0,
            'nan_onto_stack0_after_read': 0, 'jump_from_first_command': 0, 'heart_return_to_first_command': 0, 'two_labels_one_command': 0, 'jump_to_multi_label_command_after_read': 0,
        }
        self.cmp_log = None   # optional list of (value, count, op, went_left)
        self.last_jump_was_heart = False
        self.first_read_loc = None
        self.cur_loc = 0
        self.labels_at = {}

    # -- state helpers -------------------------------------------------------------------------
    def clone(self):
        m = Machine.__new__(Machine)
        m.prog = self.prog
        m.stacks = {k: list(v) for k, v in self.stacks.items()}
        m.cur = self.cur
        m.labels = dict(self.labels)
        m.latest = self.latest
        m.out = []
        m.err = []
        m.nout = self.nout
        m.lines = self.lines
        m.li = self.li
        m.lim = self.lim
        m.steps = self.steps
        m.st = dict(self.st)
        m.cmp_log = None
        m.last_jump_was_heart = self.last_jump_was_heart
        m.first_read_loc = self.first_read_loc
        m.cur_loc = self.cur_loc
        m.labels_at = dict(self.labels_at)
        return m

    def nonempty_stacks(self):
        return {k: [numtxt(v) for v in s] for k, s in self.stacks.items() if s}

    def st_(self, i):
        s = self.stacks.get(i)
        if s is None:
            s = self.stacks[i] = []
        return s

    # -- I/O stacks ------------------------------------------------------------------------------
    def emit(self, sink, v):
        if v is not NAN and v >= 0:
            n = v.numerator // v.denominator
            if n >= 2 ** 32:
                raise NotAdmitted('output value >= 2^32 (unspecified)')
            if n > 0x10FFFF or 0xD800 <= n <= 0xDFFF:
                raise EncErr(n)
            sink.append(chr(n))
            self.st['print_char'] += 1
            self.nout += 1
        else:
            t = numtxt(NAN if v is NAN else -v)
            sink.append(t)
            self.nout += len(t)
            if v is NAN:
                self.st['print_nan'] += 1
            elif v.denominator != 1:
                self.st['print_frac'] += 1
            else:
                self.st['print_num'] += 1
        if self.nout > self.lim.out_chars:
            raise NotAdmitted('output size cap')

    def push(self, i, v):
        if v is not NAN:
            if v.denominator != 1:
                self.st['fractions_made'] += 1
            if v < 0:
                self.st['negatives_made'] += 1
            if v.numerator.bit_length() > self.lim.bits or v.denominator.bit_length() > self.lim.bits:
                raise NotAdmitted('value size cap')
        if i == 1:
            self.emit(self.out, v)
        elif i == 2:
            self.emit(self.err, v)
        else:
            s = self.st_(i)
            if s or v is not NAN:
                s.append(v)
                if i == 0:
                    self.st['push_stack0'] += 1
                    if v is NAN and self.li > 0:
                        self.st['nan_onto_stack0_after_read'] += 1
                if len(s) > self.lim.stack_len:
                    raise NotAdmitted('stack length cap')
            else:
                self.st['nan_dropped_on_empty'] += 1

    def pop(self, i):
        if i == 1:
            raise Exit(0)
        if i == 2:
            raise Exit(1)
        s = self.st_(i)
        if i == 0 and not s:
            self.st['stdin_reads'] += 1
            if self.first_read_loc is None:
                self.first_read_loc = self.cur_loc
            if self.li < len(self.lines):
                line = self.lines[self.li]
                self.li += 1
                for ch in reversed(line):
                    s.append(Fraction(ord(ch)))
            else:
                self.st['eof_reads'] += 1
        if s:
            if i == 0 and self.li == 0:
                self.st['pops_of_own_values_from_stack0'] += 1
            return s.pop()
        self.st['nan_pops'] += 1
        return NAN

    # -- area -------------------------------------------------------------------------------------
    def evalarea(self, a, count):
        while True:
            if a is None:
                return 0
            if isinstance(a, int):
                return a
            op, l, r = a
            v = self.pop(self.cur)
            if v is NAN:
                left = False
                self.st['cmp_nan'] += 1
            else:
                left = (v < count) if op == '?' else (v == count)
                if v.denominator != 1:
                    self.st['cmp_frac'] += 1
            if count != 0:
                self.st['cmp_nonzero_count'] += 1
            self.st['cmp_%s_%s' % ('q' if op == '?' else 'b', 'left' if left else 'right')] += 1
            if self.cmp_log is not None:
                self.cmp_log.append((v, count, op, left))
            a = l if left else r

    # -- one command --------------------------------------------------------------------------------
    def step(self, loc):
        t, h, d, a = self.prog[loc]
        cur = self.cur
        self.cur_loc = loc
        if t == 0:
            self.push(cur, Fraction(h * d))
        elif t == 1 or t == 2:
            if h > 1:
                self.st['multi_operand'] += 1
            n = Fraction(0 if t == 1 else 1)
            for _ in range(h):
                v = self.pop(cur)
                if n is NAN or v is NAN:
                    n = NAN
                else:
                    n = n + v if t == 1 else n * v
                    if n.numerator.bit_length() > 4 * self.lim.bits:
                        raise NotAdmitted('value size cap')
            self.push(d, n)
        elif t == 3 or t == 4:
            if h > 1:
                self.st['multi_operand'] += 1
            vs = [self.pop(cur) for _ in range(h)]
            vs.reverse()
            n = Fraction(0 if t == 3 else 1)
            for v in vs:
                if t == 3:
                    x = NAN if v is NAN else -v
                else:
                    x = NAN if (v is NAN or v == 0) else 1 / v
                if n is NAN or x is NAN:
                    n = NAN
                else:
                    n = n + x if t == 3 else n * x
                    if n.numerator.bit_length() > 4 * self.lim.bits:
                        raise NotAdmitted('value size cap')
                self.push(cur, x)
            self.push(d, n)
        else:
            n = self.pop(cur)
            for _ in range(h):
                self.push(d, n)
            self.push(cur, n)
            self.cur = d
        k = self.evalarea(a, h * d)
        if k != 0:
            if k != 13:
                key = (h * d, k)
                tgt = self.labels.get(key)
                if tgt is None:
                    self.labels[key] = loc
                    self.st['labels_set'] += 1
                    self.labels_at[loc] = self.labels_at.get(loc, 0) + 1
                    if self.labels_at[loc] == 2:
                        self.st['two_labels_one_command'] += 1
                elif tgt != loc:
                    self.latest = loc
                    self.st['jumps'] += 1
                    self.last_jump_was_heart = False
                    if self.first_read_loc is not None and tgt < self.first_read_loc:
                        self.st['jump_back_over_first_read'] += 1
                    if tgt > loc:
                        self.st['forward_jumps'] += 1
                    if loc == 0:
                        self.st['jump_from_first_command'] += 1
                    if self.first_read_loc is not None and self.labels_at.get(tgt, 0) >= 2:
                        self.st['jump_to_multi_label_command_after_read'] += 1
                    return tgt
            elif self.latest is not None:
                self.st['heart_returns'] += 1
                self.st['jumps'] += 1
                if self.last_jump_was_heart:
                    self.st['heart_after_heart'] += 1
                if self.latest == loc:
                    self.st['heart_return_to_self'] += 1
                if self.latest == 0:
                    self.st['heart_return_to_first_command'] += 1
                self.last_jump_was_heart = True
                return self.latest
        return loc + 1

    # -- whole run ----------------------------------------------------------------------------------
    def run(self, observer=None):
        """Returns (stdout_text, stderr_text, end) with end in
        'end' | 'exit0' | 'exit1' | 'encerr' | 'notadmitted:<why>'.
        observer(loc, next) is called after every completed command."""
        loc = 0
        end = 'end'
        n = len(self.prog)
        try:
            while loc < n:
                self.steps += 1
                if self.steps > self.lim.steps:
                    raise NotAdmitted('step budget')
                nxt = self.step(loc)
                if observer is not None:
                    observer(loc, nxt)
                loc = nxt
        except Exit as e:
            end = 'exit%d' % e.code
        except EncErr:
            end = 'encerr'
        except NotAdmitted as e:
            end = 'notadmitted:' + e.why
        return ''.join(self.out), ''.join(self.err), end


def run_program(prog, stdin_text='', limits=None):
    m = Machine(prog, stdin_text, limits)
    o, e, end = m.run()
    return m, o, e, end


EXIT_STATUS = {'end': 0, 'exit0': 0, 'exit1': 1}
