"""Shared vocabulary of the Hyeo-ung language as used by the oracles and generators in /verif/hv.

A command is a tuple (kind, syllables, dots, area):
  kind  0 형  1 항  2 핫  3 흣  4 흡  5 흑
  area  None | int heart code 2..13 (13 = ♡) | (op, left, right) with op in '?', '!'
A grammar-shaped area is  Q := B | B '?' Q ;  B := S | S '!' B ;  S := None | heart.
"""

HEARTS = ['♥', '❤', '💕', '💖', '💗', '💘', '💙', '💚', '💛', '💜', '💝', '♡']
HEART_CODE = {c: i + 2 for i, c in enumerate(HEARTS)}
RETURN_HEART = 13
NANTXT = "너무 커엇..."
SYM = '?!' + ''.join(HEARTS)

SINGLE = ['형', '항', '핫', '흣', '흡', '흑']
START = {0: '혀', 1: '하', 2: '하', 3: '흐', 4: '흐', 5: '흐'}
MID = {0: '어', 1: '아', 2: '아', 3: '으', 4: '으', 5: '으'}
END = {0: '엉', 1: '앙', 2: '앗', 3: '읏', 4: '읍', 5: '윽'}
KIND_NAME = ['형', '항', '핫', '흣', '흡', '흑']
DOTS = {'.': 1, '…': 3, '⋯': 3, '⋮': 3}


def is_hangul(c):
    return '가' <= c <= '힣'


def render_area(a):
    """Grammar-shaped area tree -> minimal source text."""
    parts = []
    stack = [a]
    # iterative in-order walk (areas may be thousands of operators deep)
    while stack:
        x = stack.pop()
        if x is None:
            continue
        if isinstance(x, str):
            parts.append(x)
        elif isinstance(x, int):
            parts.append(HEARTS[x - 2])
        else:
            op, l, r = x
            stack.append(r)
            stack.append(op)
            stack.append(l)
    return ''.join(parts)


def render_cmd(c):
    t, h, d, a = c
    if h == 1:
        s = SINGLE[t]
    else:
        s = START[t] + MID[t] * (h - 2) + END[t]
    return s + '.' * d + render_area(a)


def render_prog(prog, sep=' '):
    return sep.join(render_cmd(c) for c in prog)


def area_debug(a):
    """Prefix rendering, identical in shape to `impl Debug for Area`."""
    out = []
    stack = [a]
    while stack:
        x = stack.pop()
        if x is None:
            out.append('_')
        elif isinstance(x, int):
            out.append(SYM[x])
        else:
            out.append(x[0])
            stack.append(x[2])
            stack.append(x[1])
    return ''.join(out)


def area_display(a):
    """Bracketed infix rendering, identical in shape to `impl Display for Area`."""
    out = []
    stack = [(0, a)]          # (0, tree) | (1, literal text)
    while stack:
        lit, x = stack.pop()
        if lit:
            out.append(x)
        elif x is None:
            out.append('_')
        elif isinstance(x, int):
            out.append(SYM[x])
        else:
            stack.append((1, ']'))
            stack.append((0, x[2]))
            stack.append((1, ']' + x[0] + '['))
            stack.append((0, x[1]))
            stack.append((1, '['))
    return ''.join(out)


def area_ops(a):
    """Number of ?/! operators in the tree."""
    n = 0
    stack = [a]
    while stack:
        x = stack.pop()
        if isinstance(x, tuple):
            n += 1
            stack.append(x[1])
            stack.append(x[2])
    return n


def area_shape_ok(a):
    """True iff the tree is grammar-shaped (can be written as source text and read back)."""
    # Q: right spine of '?', each left child a B ; B: right spine of '!', each left child a slot
    x = a
    while isinstance(x, tuple) and x[0] == '?':
        if not _b_ok(x[1]):
            return False
        x = x[2]
    return _b_ok(x)


def _b_ok(x):
    while isinstance(x, tuple):
        if x[0] != '!':
            return False
        if isinstance(x[1], tuple):
            return False
        x = x[2]
    return True


def build_area(bexprs):
    """bexprs: list (one per ?-separated part) of lists of slots (one per !-separated part)."""
    def b(slots):
        a = slots[-1]
        for s in reversed(slots[:-1]):
            a = ('!', s, a)
        return a
    a = b(bexprs[-1])
    for p in reversed(bexprs[:-1]):
        a = ('?', b(p), a)
    return a
