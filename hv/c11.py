"""C11 — the debugger shows the true state, steps back exactly, and never crashes.

Events: `hyeong debug --color never FILE` with a command script on stdin: exit status / signal, stderr,
and the transcript reduced to SEMANTIC events per prompt: state dumps (`current stack: N` + `stack K:
[...]`), output chunks (`[stdout] ...`, `[stderr] ...`), step rows (`IDX | file:line:col  RAW`).
All other chatter (help, "moved back", breakpoint messages, error messages) is not compared — the
property does not fix its wording — except that it must not be a panic.
Oracle: a model of the debugger (history of reference-machine snapshots, breakpoint set, running flag).
"""
import os
import re
import time
from . import common as C
from . import gen, refparse
from . import progcheck as P
from .refinterp import Machine, Limits, Exit, EncErr, NotAdmitted

PID = 'C11'
_RUN = {}
PROMPT = re.compile(r'(?<!=)> ')
ROW = re.compile(r'^(\d+) *\| (.*):(\d+):(\d+) +(\S+)$')
# characters that would make the line-oriented transcript ambiguous; other control characters are compared like any text
BAD_OUT = set('\n\r[>') | {'\x85', '\u2028', '\u2029', '\x0b', '\x0c', '\x1c', '\x1d', '\x1e'}


class _End(Exception):
    def __init__(self, rc, enc=False):
        self.rc, self.enc = rc, enc


def model(prog, parsed, script, fname):
    """-> (segments: list of event lists (one per consumed command), rc, enc_error, stats)"""
    n = len(prog)
    m0 = Machine(prog, '', Limits(steps=10 ** 9))
    hist = [(m0, 0)]
    bps = {0}
    pend_out, pend_err = [], []
    segs = []
    stats = {'next': 0, 'previous': 0, 'previous_at_start': 0, 'run': 0, 'state': 0, 'break_list': 0, 'break_toggle': 0,
             'break_beyond_len': 0, 'break_unparsable': 0, 'other': 0, 'max_history': 1, 'run_stop_breakpoint': 0,
             'run_to_end': 0, 'program_exit': 0, 'steps': 0, 'max_back_chain': 0, 'longest_run_steps': 0}
    chain = [0]

    def flush(ev):
        o, e = ''.join(pend_out), ''.join(pend_err)
        del pend_out[:]
        del pend_err[:]
        if o:
            ev.append(('out', o))
        if e:
            ev.append(('err', e))

    def step(ev):
        m, loc = hist[-1]
        m2 = m.clone()
        stats['steps'] += 1
        try:
            nxt = m2.step(loc)
        except Exit as ex:
            pend_out.extend(m2.out)
            pend_err.extend(m2.err)
            flush(ev)
            stats['program_exit'] += 1
            raise _End(ex.code)
        except EncErr:
            raise _End(1, True)
        pend_out.extend(m2.out)
        pend_err.extend(m2.err)
        m2.out, m2.err = [], []
        hist.append((m2, nxt))
        stats['max_history'] = max(stats['max_history'], len(hist))

    it = iter(script)
    rc, enc = 0, False
    try:
        while hist[-1][1] < n:
            line = next(it, None)
            if line is None:
                raise _End(0)
            ev = []
            segs.append(ev)
            p = line.strip(' \t').split(' ')
            c = p[0]
            if c not in ('previous', 'p', 'state', 's'):
                chain[0] = 0
            if c in ('next', 'n'):
                stats['next'] += 1
                loc = hist[-1][1]
                ev.append(('row', loc, fname, parsed[loc][4], parsed[loc][5], parsed[loc][6]))
                step(ev)
                flush(ev)
            elif c in ('previous', 'p'):
                stats['previous'] += 1
                if len(hist) > 1:
                    hist.pop()
                    chain[0] += 1
                    stats['max_back_chain'] = max(stats['max_back_chain'], chain[0])
                    if chain[0] >= 64 and stats.get('_armed'):
                        stats['long_run_then_long_back'] = 1
                else:
                    stats['previous_at_start'] += 1
            elif c in ('run', 'r'):
                stats['run'] += 1
                if not bps:
                    stats['run_with_no_breakpoint_set'] = stats.get('run_with_no_breakpoint_set', 0) + 1
                    if len(hist) > 1:
                        stats['run_with_no_breakpoint_after_steps'] = stats.get('run_with_no_breakpoint_after_steps', 0) + 1
                s0 = stats['steps']
                step(ev)
                while hist[-1][1] < n and hist[-1][1] not in bps:
                    step(ev)
                stats['longest_run_steps'] = max(stats['longest_run_steps'], stats['steps'] - s0)
                if hist[-1][1] < n:
                    stats['run_stop_breakpoint'] += 1
                    if stats['steps'] - s0 >= 64:
                        stats['_armed'] = 1
                    flush(ev)
                else:
                    stats['run_to_end'] += 1
            elif c in ('state', 's'):
                stats['state'] += 1
                mm = hist[-1][0]
                ev.append(('state', mm.cur, mm.nonempty_stacks()))
            elif c in ('break', 'b'):
                if len(p) < 2:
                    stats['break_list'] += 1
                    ev.append(('bplist', sorted(bps)))
                else:
                    t = p[1]
                    if re.match(r'^\+?[0-9]+$', t) and int(t) < 2 ** 64:
                        num = int(t)
                        if num < n:
                            stats['break_toggle'] += 1
                            bps.symmetric_difference_update({num})
                        else:
                            stats['break_beyond_len'] += 1
                    else:
                        stats['break_unparsable'] += 1
            elif c == 'exit':
                raise _End(0)
            else:
                stats['other'] += 1
        # program ran off its end: remaining output is delivered, status 0
        ev = segs[-1] if segs else []
        flush(ev)
    except _End as e:
        rc, enc = e.rc, e.enc
    return segs, rc, enc, stats


def extract(transcript):
    """transcript -> list of event lists, one per prompt (the header before the first prompt is dropped)."""
    parts = PROMPT.split(transcript)
    segs = []
    for part in parts[1:]:
        ev = []
        lines = part.split('\n')
        i = 0
        listing = False
        while i < len(lines):
            ln = lines[i]
            if ln.startswith('current stack: '):
                try:
                    cur = int(ln[len('current stack: '):])
                except ValueError:
                    cur = None
                stacks = {}
                i += 1
                while i < len(lines) and lines[i].startswith('stack '):
                    k, rest = lines[i][6:].split(': ', 1)
                    body = rest[1:-1]
                    if body:
                        stacks[int(k)] = body.split(', ')
                    i += 1
                ev.append(('state', cur, stacks))
                continue
            if ln.startswith('[stdout] '):
                ev.append(('out', ln[9:]))
            elif ln.startswith('[stderr] '):
                ev.append(('err', ln[9:]))
            elif ln.startswith('==> printing breakpoints'):
                listing = True
                ev.append(('bplist', []))
            else:
                mt = ROW.match(ln)
                if mt:
                    if listing:
                        ev[-1][1].append(int(mt.group(1)))
                    else:
                        ev.append(('row', int(mt.group(1)), mt.group(2), int(mt.group(3)), int(mt.group(4)), mt.group(5)))
            i += 1
        segs.append(ev)
    return segs


CMDS = ['n', 'n', 'n', 'next', 'p', 'previous', 'p', 'r', 'run', 's', 'state', 's', 'b', 'break', 'h', 'help', 'zzz', '',
        'b 0', 'b 1', 'b 2', 'b 3', 'b 99', 'b -1', 'b x', 'b  2', 'b +1', 'b 18446744073709551616', 'b 007', 'next now', 'S', '  s  ']


def gen_script(rng, n, deep=False):
    if deep:
        # long run / long stepping, then a long chain of back-steps, then look and continue
        out = []
        if rng.random() < 0.25:
            # step into the loop, remove the only breakpoint, then run with NO breakpoint set: must run to the end
            out += [rng.choice(['n', 'n', 'r'])] * rng.randint(1, 9)
            out += ['b 0']
            if rng.random() < 0.3:
                out += ['b', 's']
            out += ['r', 's', 'n']
            return out
        if rng.random() < 0.2:
            # forward / backward bursts whose lengths sit on powers of two (snapshot intervals, ring buffers)
            pw = rng.choice([64, 128, 256])
            out += ['n'] * pw + ['p'] * rng.choice([1, 2]) + ['n'] * (pw + rng.choice([1, 2, 3])) + ['p'] * rng.choice([1, 2, pw]) + ['s', 'n', 's']
            return out
        nback = rng.choice([1, 5, 30, 63, 64, 65, 70, 100, 130, rng.randint(1, 160)])
        if rng.random() < 0.6:
            # a breakpoint on the tail behind the loop: ONE `run` executes the whole loop and stops there
            out.append('b %d' % rng.choice([n - 1, n - 2, n - 2]))
            if rng.random() < 0.3:
                out.append('b 0')
            out.append(rng.choice(['r', 'run']))
        else:
            out += ['n'] * rng.randint(1, 120)
        out += ['p'] * nback
        out += ['s', 'n', 's']
        if rng.random() < 0.5:
            out += ['r', 's'] + ['p'] * rng.randint(1, 80) + ['s', 'n']
        return out
    k = rng.randint(0, 40)
    out = []
    while len(out) < k:
        r = rng.random()
        if r < 0.15:
            out.append('b %d' % rng.randint(0, n + 2))
        elif r < 0.25:
            # burst of steps / back-steps, then look
            out += [rng.choice(['n', 'n', 'p', 'r'])] * rng.randint(1, 4) + ['s']
        elif r < 0.3:
            out += ['p'] * rng.randint(1, 5) + ['s']
        else:
            out.append(rng.choice(CMDS))
    if rng.random() < 0.15:
        out.append('exit')
    return out


def _case(i):
    tier, seed, rundir = _RUN['tier'], _RUN['seed'], _RUN['dir']
    rng = C.rng_for(seed, PID, tier, i)
    res = {'i': i, 'items': [], 'hist': {}, 'status': 'ok'}
    deep = rng.random() < 0.25
    replay = (not deep) and (i % 6 == 1)
    if replay:
        # return-rich programs (♡ before any jump, ♡ between two different jump sites, ♡ to the same command, the first
        # command as a jump source) walked forward past later jumps, back to before the ♡, and forward again
        r = rng.random()
        if r < 0.25:
            name, prog = 'replay:two_returns', gen.tmpl_two_returns(rng)
        elif r < 0.4:
            name, prog = 'replay:self_return', gen.tmpl_self_return(rng, with_read=False)
        elif r < 0.55:
            name, prog = 'replay:first_command_source', gen.tmpl_first_command_source(rng)
        elif r < 0.7:
            name, prog = 'replay:heart_return', gen.tmpl_heart_return(rng)
        else:
            early = [(0, 1, rng.randint(0, 3), rng.choice([13, ('?', 13, None), ('?', None, 13)]))]
            name, prog = 'replay:early_heart', ([(0, 1, rng.randint(0, 3), None)] * rng.randint(0, 2) + early
                                                + gen.tmpl_countdown(rng, iters=rng.choice([1, 2, 3, 4]))
                                                + [(0, 1, rng.choice([0, 1, 2]), rng.choice([13, ('?', 13, None), ('!', 13, 13)]))] * rng.randint(0, 1)
                                                + gen.print_chars([rng.choice([65, 66])], 3, 1))
    elif deep:
        # a loop followed by a two-command tail: a breakpoint on the tail makes `run` execute the whole loop
        name, prog = 'tmpl:countdown(deep)', gen.tmpl_countdown(rng, iters=rng.choice([5, 10, 17, 20, 30, 40, 60, 100, 150]))
        prog = prog + [(0, 1, 65, None), (1, 1, rng.choice([1, 2]), None)]
    else:
        name, prog = gen.gen_case(rng, allow_input=False, weights={'random': 0.3, 'template': 0.3, 'mutant': 0.4})
    very_deep = (i % 100 == 37)
    if very_deep:
        # thousands of steps in ONE run stopped by a breakpoint, then a rewind of more than a thousand steps (history
        # bounds, trimmed or compacted snapshots)
        deep, replay = False, False
        for _ in range(12):
            if (i // 100) % 5 == 0:
                # tens of thousands of steps: a loop whose state does not grow (the junk of every round is printed), so that the
                # debugger's one-snapshot-per-step history stays small
                nit = rng.choice([4200, 5000, 9000, 17000])
                name, prog = 'tight_loop(very deep)', (gen.push_value(3 * nit + rng.choice([0, 1, 2])) + [(0, 1, 3, 4), (3, 1, rng.choice([1, 2]), None), (1, 2, 3, None),
                                                                                                       (5, 1, 3, ('?', None, 4))])
            else:
                name, prog = 'tmpl:countdown(very deep)', gen.tmpl_countdown(rng, iters=rng.choice([600, 800, 1100, 1400]))
            prog = prog + [(0, 1, 65, None), (1, 1, rng.choice([1, 2]), None)]
            m_, ro_, re__, rend_ = P.admit(prog, '', Limits(steps=100000, out_chars=10 ** 6))
            if not rend_.startswith('notadmitted') and not (BAD_OUT & set(ro_ + re__)):
                break
    empty = (i % 97 == 5)
    if empty:
        # a file without a single command: the debugger has nothing to step and must end at once, whatever is typed
        name, prog, deep, replay = 'empty_program', [], False, False
    lim = Limits(steps=100000, out_chars=10 ** 6) if very_deep else Limits(steps=1500)
    m, ro, re_, rend = P.admit(prog, '', lim)
    if rend.startswith('notadmitted') or m.st['stdin_reads']:
        res['status'] = 'reject:' + ('input' if m.st['stdin_reads'] else 'budget')
        return res
    if BAD_OUT & set(ro + re_):
        res['status'] = 'reject:alphabet'
        return res
    text = P.render_text(rng, prog)
    if empty:
        text = rng.choice(['', '\n', 'plain text without commands\n', '... ♥ ? !\n', '하 하 흐\n', '\ufeff', '엉 앙 읏'])
    if text is None:
        res['status'] = 'reject:render'
        return res
    parsed = refparse.parse(text)
    if len(refparse.commands_only(parsed)) != len(prog):
        res['status'] = 'reject:render'
        return res
    script = gen_script(rng, len(prog), deep)
    if very_deep:
        n = len(prog)
        nb = rng.choice([1030, 1100, 2050, 2100, m.steps + 3, m.steps - 5]) if m.steps < 16000 else rng.choice([m.steps // 2 + 7, m.steps - 5, m.steps + 3, 8200, 16400])
        script = ['b %d' % (n - 2), rng.choice(['r', 'run'])] + ['p'] * nb + ['s', 'n', 's'] + (['p'] * rng.randint(1, 1100) + ['s', 'n'] if rng.random() < 0.5 else [])
    if replay:
        total = m.steps
        script = []
        for _ in range(rng.randint(1, 3)):
            a = rng.randint(1, total + 2)
            b = max(1, a - rng.choice([0, 0, 0, 1, 2, 3, rng.randint(0, a - 1), rng.randint(0, a - 1)]))     # mostly far back: to before the first ♡
            script += ['n'] * a + (['s'] if rng.random() < 0.3 else []) + ['p'] * b + (['s'] if rng.random() < 0.5 else [])
            script += ['n'] * rng.randint(1, b + 3) + ['s']
        if len(script) > 900:
            script = script[:900] + ['s']
    fname = rng.choice(['d%d_%d.hyeong', 'd%d_%d.hyeong', 'd %d:%d.hyeong', '디버그%d_%d.hyeong', '안녕하세요_세계_프로그램_예제_디버그_%d_%d.hyeong',
                        'a_rather_long_file_name_for_a_program_%d_%d.hyeong']) % (os.getpid(), i)
    path = P.write_program(rundir, fname, text)
    res['key'] = C.sha(text + '\0' + '\n'.join(script))
    res['src'] = name
    try:
        try:
            want, rc, enc, stats = model(prog, parsed, script, fname)
        except NotAdmitted:
            res['status'] = 'reject:budget'
            return res
        eol = '\r\n' if rng.random() < 0.1 else '\n'
        last_eol = '' if (script and script[-1].strip() and rng.random() < 0.2) else eol
        p = C.run_proc([C.HYEONG, 'debug', '--color', 'never', path], (eol.join(script) + last_eol).encode() if script else b'', cpu=(600 if very_deep else 20))
        res['hist'] = stats
        if very_deep:
            stats['very_deep_sessions'] = 1
        if empty:
            stats['empty_program_sessions'] = 1
        if replay:
            stats['replay_sessions'] = 1
            if m.st['heart_returns'] or name == 'replay:early_heart':
                stats['replay_sessions_with_heart_return'] = 1
        info = {'program': text, 'script': script, 'source': name,
                'replay': "printf '%%s\\n' <script lines> | %s debug --color never FILE" % C.HYEONG}
        if p.wall_timeout or p.cpu_killed:
            if p.cpu_killed:
                res['items'].append(('v', 'hang:' + res['key'], 'debugger did not finish (CPU limit) on a terminating session', info))
            else:
                res['items'].append(('i', 'wall-clock watchdog ' + res['key']))
            return res
        if p.crashed:
            res['items'].append(('v', 'crash:' + res['key'], 'debugger crashed', dict(info, rc=p.rc, stderr=C.clip(p.err, 500))))
            return res
        got = extract(p.outs())
        # the final prompt (answered by end of input) yields an empty trailing segment
        while len(got) > len(want) and not got[-1]:
            got.pop()
        problem = None
        for k in range(max(len(got), len(want))):
            g = got[k] if k < len(got) else None
            w = want[k] if k < len(want) else None
            if g != w:
                if w is not None and g is not None and enc and k == len(want) - 1:
                    # session ends in an encoding error: buffered output of the failing burst is not judged
                    if [e for e in g if e[0] in ('row', 'state')] == [e for e in w if e[0] in ('row', 'state')]:
                        continue
                problem = {'command_index': k, 'command': script[k] if k < len(script) else '(end of script)',
                           'expected_events': C.clip(str(w), 600), 'observed_events': C.clip(str(g), 600)}
                break
        if problem is None:
            if enc:
                if p.rc != 1 or not p.errs().strip():
                    problem = {'what': 'encoding error expected: exit 1 with a diagnostic', 'rc': p.rc, 'stderr': C.clip(p.err, 300)}
            elif p.rc != rc:
                problem = {'what': 'exit status', 'expected': rc, 'observed': p.rc, 'stderr': C.clip(p.err, 300)}
            elif p.err:
                problem = {'what': 'text on stderr', 'stderr': C.clip(p.err, 300)}
        if problem is not None:
            res['items'].append(('v', 'dbg:' + res['key'], 'debugger session differs from the model', dict(info, problem=problem, transcript_tail=C.clip(p.outs()[-600:], 600))))
        res['sample'] = {'program': C.clip(text, 120), 'script': script[:14], 'steps': stats['steps']}
        return res
    finally:
        try:
            os.unlink(path)
        except OSError:
            pass


def main(tier, seed):
    t0 = time.time()
    rep = C.Reporter(PID, tier, seed)
    C.build(['repo'])
    n = 5000 if tier == 'quick' else 200000
    rundir = C.mktmp(PID)
    _RUN.update(tier=tier, seed=seed, dir=rundir)
    results = C.pmap(_case, list(range(n)), chunksize=4, stop_after_bad=40,
                     is_bad=lambda r: any(it[0] == 'v' for it in r['items']))
    hist, rejects = {}, {}
    ev = 0
    keys = set()
    samples = []
    for r in results:
        rep.merge(r['items'])
        if r['status'] != 'ok':
            rejects[r['status']] = rejects.get(r['status'], 0) + 1
            continue
        ev += 1
        mh = r['hist'].pop('max_history', 1)
        hist['max_history_depth'] = max(hist.get('max_history_depth', 0), mh)
        for kk in ('max_back_chain', 'longest_run_steps'):
            vv = r['hist'].pop(kk, 0)
            hist[kk] = max(hist.get(kk, 0), vv)
            if kk == 'max_back_chain' and vv >= 64:
                hist['sessions_with_back_chain>=64'] = hist.get('sessions_with_back_chain>=64', 0) + 1
            if kk == 'longest_run_steps' and vv >= 64:
                hist['sessions_with_run>=64_steps'] = hist.get('sessions_with_run>=64_steps', 0) + 1
        if r['hist'].get('long_run_then_long_back'):
            hist['sessions_long_run_stopped_then_>=64_back'] = hist.get('sessions_long_run_stopped_then_>=64_back', 0) + 1
        C.add_hist(hist, r['hist'])
        if r['hist'].get('steps', 0) >= 2 and (r['hist'].get('previous') or r['hist'].get('run')):
            keys.add(r['key'])
        if 'sample' in r and len(samples) < 4 and r['hist'].get('previous') and r['hist'].get('run') and r['hist'].get('state'):
            samples.append(r['sample'])
    if not samples:
        samples = [r['sample'] for r in results if 'sample' in r][:3]
    cov = {
        'evaluations': ev, 'distinct_nontrivial': len(keys),
        'rule': 'sessions = input-free admitted program (output alphabet without newline, [, >, controls) x script of 0..40 debugger commands '
                '(n/next, p/previous, r/run, s/state, b, b N incl. N at and beyond the program length, +N, huge, negative, non-numeric, double '
                'space, help, unknown words, empty lines, exit), biased so that `state` follows bursts of steps/back-steps. Per prompt the '
                'semantic events (step row, output chunks, state dump, breakpoint list) and the exit status are compared with the model. '
                'non-trivial = >= 2 steps executed and at least one previous or run; distinct by program text + script.',
        'samples': samples, 'generated': n, 'rejected': rejects, 'commands_by_kind_and_outcomes': hist,
    }
    assumptions = ['debugger chatter wording is not compared; only semantic events, exit status and absence of crash',
                   'the model ignores `break N` for N >= program length (it must merely not crash)',
                   'programs are input-free and their output avoids newline, [ and > so that transcripts split unambiguously']
    minimum = {'sessions': (ev, 250), 'runs of thousands of steps followed by > 1000 back-steps': (hist.get('very_deep_sessions', 0), 10), 'replay sessions over programs with a ♡ return': (hist.get('replay_sessions_with_heart_return', 0), 40), 'previous': (hist.get('previous', 0), 300), 'run': (hist.get('run', 0), 200),
               'state dumps': (hist.get('state', 0), 500), 'breakpoints beyond length': (hist.get('break_beyond_len', 0), 50),
               'run stopped by breakpoint': (hist.get('run_stop_breakpoint', 0), 30),
               'sessions with >= 64 consecutive back-steps': (hist.get('sessions_with_back_chain>=64', 0), 10),
               'sessions with a run of >= 64 steps': (hist.get('sessions_with_run>=64_steps', 0), 10),
               'long run stopped at breakpoint then >= 64 back-steps': (hist.get('sessions_long_run_stopped_then_>=64_back', 0), 5),
               'run with no breakpoint set, after some steps': (hist.get('run_with_no_breakpoint_after_steps', 0), 10)}
    return rep.finish(cov, assumptions, t0, minimum)
