"""C08 — any command list can be written as source text and is read back unchanged.

Events: (a) hv_parse(render(cmds, noise)); (b) hv_parse(concat of the raw texts reported for the commands
of ANY input text); (c) rows of `hyeong check --color never FILE`.
Oracle: (a) identity on the generated command list; (b) same commands as the first parse; (c) a listing
reader that must reproduce every command (and the reference location) from the printed row alone.
"""
import os
import re
import time
from . import common as C
from . import noise, refparse
from .lang import area_debug, area_ops, KIND_NAME

PID = 'C08'
_RUN = {}


def _run_parse(texts):
    data = ('\n'.join(noise.escape_record(t) for t in texts) + '\n').encode('utf-8')
    p = C.run_proc([C.HV_PARSE], data, cpu=300, wall=900)
    outs = p.out.decode('utf-8', 'replace').split('\n')
    if outs and outs[-1] == '':
        outs.pop()
    return p, outs


def _cmds_of(line):
    """hv_parse output line -> list of (kind, h, d, DebugArea) and list of raws"""
    if line == '':
        return [], []
    cmds, raws = [], []
    for part in line.split(';'):
        f = part.split(',')
        cmds.append((int(f[0]), int(f[1]), int(f[2]), f[3]))
        raws.append(f[7])
    return cmds, raws


def _shard(k):
    tier, seed, per = _RUN['tier'], _RUN['seed'], _RUN['per']
    rng = C.rng_for(seed, PID, tier, k)
    items = []
    hist = {}
    lists = []
    for i in range(per):
        big = rng.random() < (0.08 if tier == 'quick' else 0.15)
        cmds = noise.random_cmds(rng, 8, big=big)
        if tier != 'quick' and rng.random() < 0.002:
            # a few very deep areas
            from .lang import build_area
            n = 4096
            cmds.append((0, 1, 1, build_area([[rng.choice([None, 2, 13])] for _ in range(n + 1)])))
        lvl = rng.choice([0.0, 0.5, 1.0, 1.0])
        text = noise.render_noisy(rng, cmds, lvl)
        lists.append((cmds, text, lvl))
    p, outs = _run_parse([t for _, t, _ in lists])
    second = []     # (origin index, concat raws, cmds observed)
    keys = set()
    maxh = maxd = maxops = 0
    samples = []
    for idx, (cmds, text, lvl) in enumerate(lists):
        if idx >= len(outs):
            items.append(('v', 'crash:' + C.sha(text), 'parser crashed on a rendered command list', {'text': C.clip(text, 2000), 'rc': p.rc}))
            break
        if outs[idx] == 'PANIC':
            items.append(('v', 'panic:' + C.sha(text), 'parser panicked on a rendered command list', {'text': C.clip(text, 2000)}))
            continue
        got, raws = _cmds_of(outs[idx])
        want = [(t, h, d, area_debug(a)) for (t, h, d, a) in cmds]
        hist['noise_level:%s' % lvl] = hist.get('noise_level:%s' % lvl, 0) + 1
        for (t, h, d, a) in cmds:
            maxh, maxd, maxops = max(maxh, h), max(maxd, d), max(maxops, area_ops(a))
        keys.add(C.sha(text))
        if got != want:
            j = 0
            while j < min(len(got), len(want)) and got[j] == want[j]:
                j += 1
            items.append(('v', 'render:' + C.sha(text), 'rendered command list is not read back unchanged', {
                'text': C.clip(text, 3000), 'command_index': j,
                'written': C.clip(str(want[j]) if j < len(want) else '(none)', 300),
                'read_back': C.clip(str(got[j]) if j < len(got) else '(none)', 300),
                'written_count': len(want), 'read_count': len(got)}))
        second.append((text, ''.join(raws), got))
        if len(samples) < 2 and len(text) < 100 and lvl > 0:
            samples.append({'commands': [(KIND_NAME[t], h, d, area_debug(a)) for (t, h, d, a) in cmds], 'rendered': text})
    # (b) also arbitrary texts (the random strings of C04)
    from .c04 import gen_text as _c04_text
    arb = [(_c04_text(rng, 'quick')[1] if rng.random() < 0.5 else noise.random_text(rng, 60)) for _ in range(per // 2)]
    p1, outs1 = _run_parse(arb)
    for idx, t in enumerate(arb):
        if idx < len(outs1) and outs1[idx] != 'PANIC':
            got, raws = _cmds_of(outs1[idx])
            second.append((t, ''.join(raws), got))
    p2, outs2 = _run_parse([s for _, s, _ in second])
    nre = 0
    for idx, (orig, cat, got) in enumerate(second):
        if idx >= len(outs2) or outs2[idx] == 'PANIC':
            items.append(('v', 'reparse-crash:' + C.sha(cat), 'parser crashed on concatenated raw texts', {'text': C.clip(cat, 2000)}))
            continue
        again, raws2 = _cmds_of(outs2[idx])
        nre += 1
        if again != got:
            items.append(('v', 'reparse:' + C.sha(orig), 're-parsing the reported source texts gives different commands', {
                'original_text': C.clip(orig, 2000), 'concatenated_raws': C.clip(cat, 2000),
                'first_parse': C.clip(str(got), 600), 'second_parse': C.clip(str(again), 600)}))
        elif ''.join(raws2) != cat:
            items.append(('v', 'reraw:' + C.sha(orig), 'reported source text is not stable under re-parsing', {
                'original_text': C.clip(orig, 2000), 'concatenated_raws': C.clip(cat, 2000), 'second_raws': C.clip(''.join(raws2), 2000)}))
    hist['reparsed_texts'] = nre
    return {'items': items, 'hist': hist, 'n': len(lists) + len(arb), 'keys': len(keys), 'samples': samples,
            'maxh': maxh, 'maxd': maxd, 'maxops': maxops}


ROW = re.compile(r'^(\d+) *\| (.*):(\d+):(\d+) +(\S)_(\d+)_(\d+) (\S+)$')


def _check_case(i):
    tier, seed, rundir = _RUN['tier'], _RUN['seed'], _RUN['dir']
    rng = C.rng_for(seed, PID, 'check', tier, i)
    cmds = noise.random_cmds(rng, 10, big=rng.random() < 0.05)
    text = noise.render_noisy(rng, cmds, rng.choice([0.0, 1.0]))
    if rng.random() < 0.3:
        text = noise.random_text(rng, 80)
    parsed = refparse.parse(text)
    name = rng.choice(['k%d_%d.hyeong', 'k %d %d.hyeong', 'k:%d:%d.hyeong', '한글 %d_%d.hyeong', 'é😀%d_%d.hyeong', '%d_%d.x.hyeong', '안녕하세요_세계_프로그램_예제_목록_%d_%d.hyeong',
                       'a_rather_long_file_name_for_a_listing_%d_%d.hyeong']) % (os.getpid(), i)
    path = os.path.join(rundir, name)
    with open(path, 'w', encoding='utf-8', newline='') as f:
        f.write(text)
    try:
        p = C.run_proc([C.HYEONG, 'check', '--color', 'never', path], b'', cpu=60)
        if p.wall_timeout or p.cpu_killed:
            return {'items': [('i', 'check watchdog')], 'rows': 0}
        if p.crashed or p.rc != 0:
            return {'items': [('v', 'check-exit:' + C.sha(text), '`hyeong check` failed', {'text': text, 'rc': p.rc, 'stderr': C.clip(p.err, 400)})], 'rows': 0}
        rows = [ln for ln in p.outs().split('\n') if ' | ' in ln]
        items = []
        if len(rows) != len(parsed):
            items.append(('v', 'check-rows:' + C.sha(text), 'listing has a different number of rows', {'text': text, 'rows': len(rows), 'commands': len(parsed)}))
            return {'items': items, 'rows': len(rows)}
        for k, (ln, (t, h, d, a, line, col, raw)) in enumerate(zip(rows, parsed)):
            m = ROW.match(ln)
            bad = None
            if not m:
                bad = 'row not of the form IDX | file:line:col  KIND_h_d AREA'
            else:
                try:
                    tree = noise.parse_display(m.group(8))
                except ValueError as e:
                    tree = ('unreadable', str(e))
                kind = KIND_NAME.index(m.group(5)) if m.group(5) in KIND_NAME else -1
                got = (int(m.group(1)), m.group(2), int(m.group(3)), int(m.group(4)), kind, int(m.group(6)), int(m.group(7)), tree)
                want = (k, name, line, col, t, h, d, a)
                if got != want:
                    bad = 'row does not determine the command: read %s, expected %s' % (C.clip(str(got), 300), C.clip(str(want), 300))
            if bad:
                items.append(('v', 'check-row:' + C.sha(text), 'check listing row wrong', {'text': text, 'row': C.clip(ln, 400), 'problem': bad}))
                break
        return {'items': items, 'rows': len(rows)}
    finally:
        try:
            os.unlink(path)
        except OSError:
            pass


def main(tier, seed):
    t0 = time.time()
    rep = C.Reporter(PID, tier, seed)
    C.build(['repo', 'core'])
    shards, per = (32, 800) if tier == 'quick' else (160, 6250)
    _RUN.update(tier=tier, seed=seed, per=per, dir=C.mktmp(PID))
    res = C.pmap(_shard, list(range(shards)))
    hist = {}
    n = keys = 0
    samples = []
    maxh = maxd = maxops = 0
    for r in res:
        rep.merge(r['items'])
        C.add_hist(hist, r['hist'])
        n += r['n']
        keys += r['keys']
        maxh, maxd, maxops = max(maxh, r['maxh']), max(maxd, r['maxd']), max(maxops, r['maxops'])
        if len(samples) < 4:
            samples.extend(r['samples'][:1])
    nchk = 800 if tier == 'quick' else 20000
    rows = 0
    for r in C.pmap(_check_case, list(range(nchk)), chunksize=8):
        rep.merge(r['items'])
        rows += r['rows']
    cov = {
        'evaluations': n + nchk, 'distinct_nontrivial': keys,
        'rule': '(a) random command lists (kinds, syllable counts to %d, dot counts to %d, grammar-shaped areas to %d operators) rendered with noise '
                'in every place the grammar ignores (whitespace/foreign text anywhere, non-Hangul inside the syllable part, arbitrary filler '
                'syllables, stray end syllables, ellipses for dots, dots/filler/redundant hearts inside areas, a prefix containing area '
                'characters and dots, stray start syllables after the last end syllable) must parse back to the same list; (b) the concatenated '
                'raw texts of every parse (rendered lists and arbitrary strings) must re-parse to the same commands and raws; (c) every row of '
                '`hyeong check` must determine index, file, line, column, kind, counts and area tree. distinct by rendered text; all rendered lists are non-trivial.'
                % (maxh, maxd, maxops),
        'samples': samples, 'histogram': hist, 'max_syllables': maxh, 'max_dots': maxd, 'max_area_operators': maxops,
        'check_rows_read_back': rows, 'check_binary_runs': nchk,
    }
    assumptions = ['the renderer (hv/noise.py) places noise only where the grammar as stated ignores it',
                   'reference parser supplies expected locations for the listing']
    minimum = {'rendered lists': (keys, 3000), 'reparsed': (hist.get('reparsed_texts', 0), 3000), 'check rows': (rows, 500)}
    return rep.finish(cov, assumptions, t0, minimum)
