"""C02 — optimisation levels 1 and 2 never change what a program does.

Events: `hyeong run -O{0,1,2} --color never FILE` on the same file and stdin: stdout after the header,
stderr, exit status.  Oracle: the optimised run must equal the UNOPTIMISED run of the real tool (the
statement of the property); the reference interpreter admits the case (predicts termination, keeps
values small), classifies which mechanisms the execution exercised, and is recorded as a third witness.
"""
import os
import time
from . import common as C
from . import gen
from . import progcheck as P

PID = 'C02'
_RUN = {}


def _case(i):
    tier, seed, rundir = _RUN['tier'], _RUN['seed'], _RUN['dir']
    rng = C.rng_for(seed, PID, tier, i)
    res = {'i': i, 'items': [], 'feat': [], 'status': 'ok', 'hist': {}}
    forced_stdin = None
    if i % 12 == 5:
        name, prog = 'tmpl:stack0_data', gen.tmpl_stack0_data(rng)
        if rng.random() < 0.4:
            prog = gen.epilogue(rng, prog)
        forced_stdin = rng.choice(gen.MULTILINE) if rng.random() < 0.8 else None
    elif i % 12 == 9:
        name, prog = 'tmpl:forward_jump', gen.tmpl_forward_jump(rng)
    elif i % 24 == 1:
        name, prog = 'tmpl:loop_carried', gen.tmpl_loop_carried(rng)
    elif i % 24 == 13:
        name, prog = 'tmpl:skip_loop', gen.tmpl_skip_loop(rng)
        forced_stdin = rng.choice(gen.SKIP_STDINS) if rng.random() < 0.85 else None
        if rng.random() < 0.6:
            # input that really starts with the character the loop skips (the loop is taken 1-4 times)
            cc = max(c[1] * c[2] for c in prog if c[0] == 0 and c[3] is not None and not isinstance(c[3], int))
            forced_stdin = chr(cc) * rng.randint(1, 4) + rng.choice(['xyz\n', 'pq', '\nab\n', chr(cc - 1) + 'k\n', ''])
    elif i % 24 == 19:
        # loops whose number of jumps sits on the speculation budget (99, 100, 101, 102 jumps in one top-level command)
        name, prog = 'tmpl:countdown(budget)', gen.tmpl_countdown(rng, iters=rng.choice([98, 99, 100, 100, 101, 101, 102, 103]))
        if rng.random() < 0.4:
            prog = gen.epilogue(rng, prog)
    elif i % 24 == 7:
        name, prog = 'tmpl:nested', gen.tmpl_nested(rng)
    elif i % 24 == 23:
        name, prog = 'tmpl:far_stacks', gen.tmpl_far_stacks(rng)
        if rng.random() < 0.5:
            prog = gen.epilogue(rng, prog)
    elif i % 24 == 11:
        name, prog = 'tmpl:zoo', gen.tmpl_zoo(rng)
        if rng.random() < 0.5:
            prog = gen.epilogue(rng, prog)
    elif i % 24 == 15:
        name, prog = 'tmpl:first_command_source', gen.tmpl_first_command_source(rng)
    elif i % 24 == 3:
        name, prog = 'tmpl:abandoned_return', gen.tmpl_abandoned_return(rng)
        if rng.random() < 0.3:
            prog = gen.epilogue(rng, prog)
    else:
        name, prog = gen.gen_case(rng, allow_input=True)
    stdin = gen.gen_stdin(rng)
    if forced_stdin is not None:
        stdin = forced_stdin
    res['src'] = name
    text = P.render_text(rng, prog)
    if text is None:
        res['status'] = 'reject:render'
        return res
    lim = P.default_limits(tier, loopy=True)
    m, ro, re_, rend = P.admit(prog, stdin, lim)
    nonterm = False
    if rend.startswith('notadmitted'):
        # a slice of step-budget rejects is used for the "never terminates -> prefix-compatible" clause
        if rend == 'notadmitted:step budget' and (ro or re_) and rng.random() < 0.15:
            nonterm = True
        else:
            res['status'] = 'reject:' + rend.split(':', 1)[1]
            return res
    path = P.write_program(rundir, 'p%d_%d.hyeong' % (os.getpid(), i), text)
    sb = stdin.encode('utf-8')
    res['key'] = C.sha(text + '\0' + stdin)
    try:
        if nonterm:
            return _nonterm(res, path, sb, text, stdin, ro, re_)
        feat = P.features(m, rend)
        k, cause, pinfo = P.prefix_model_info(prog)
        res['hist']['prestop:' + cause] = 1
        if cause in ('io', 'budget'):
            # what the speculation that was given up had already done: any of it must be invisible afterwards
            if pinfo['jumps']:
                feat.add('abandoned_speculation_jumped')
            if pinfo['first_step_return'] and pinfo['latest_changed']:
                feat.add('abandoned_return_then_other_jump')
            if pinfo['labels_added']:
                feat.add('abandoned_speculation_registered_labels')
        if cause != 'end' and k > 0:
            feat.add('partial_prefix')
        if cause == 'budget':
            feat.add('rollback_budget')
        if cause == 'io' and (m.st['print_char'] + m.st['print_num'] + m.st['print_frac'] + m.st['print_nan']):
            feat.add('io_stop_with_output')
        nst = len({c[2] for c in prog if c[0] != 0 and c[2] > 3})
        if nst >= 2:
            feat.add('many_stacks')
        res['feat'] = sorted(feat)
        res['steps'] = m.steps
        base = P.run_interp(C.HYEONG, path, 0, sb, hint=(re_, rend))
        d0 = P.compare_to_ref(base, ro, re_, rend, lenient_encerr=False)
        if d0 is not None:
            res['hist']['O0_differs_from_reference'] = 1
        if base.kind in ('wall', 'cpu', 'crash', 'noheader', 'other'):
            res['items'].append(('i', 'unoptimised run unusable (%s) for %s' % (base.kind, C.sha(text))))
            res['status'] = 'inconclusive'
            return res
        for level in (1, 2):
            obs = P.run_interp(C.HYEONG, path, level, sb, hint=(re_, rend))
            if obs.kind == 'cpu':
                # the model predicts termination within the step budget: re-run once alone before judging
                obs = P.run_interp(C.HYEONG, path, level, sb, cpu=30, hint=(re_, rend))
            d = P.compare_runs(base, obs, lenient_encerr=True, ref_err=re_)
            if d is None:
                continue
            if d.startswith('INCONCLUSIVE'):
                res['items'].append(('i', '%s level %d %s' % (C.sha(text), level, d)))
                continue
            sig = 'O%d:%s' % (level, C.sha(text + '\0' + stdin))
            res['items'].append(('v', sig, 'optimised run differs from unoptimised run', {
                'program': text, 'stdin': stdin, 'level': level, 'difference': d, 'source': name,
                'unoptimised': base.brief(), 'optimised': obs.brief(),
                'reference': {'end': rend, 'stdout': C.clip(ro, 400), 'stderr': C.clip(re_, 400)},
                'unoptimised_agrees_with_reference': d0 is None, 'features': sorted(feat),
                'replay': 'printf %%s <stdin> | %s run -O%d --color never FILE  (and -O0)' % (C.HYEONG, level)}))
        res['sample'] = {'program': C.clip(text, 160), 'stdin': C.clip(stdin, 40), 'end': rend,
                         'stdout': C.clip(base.out, 60), 'features': sorted(feat), 'prestop': [k, cause]}
        return res
    finally:
        try:
            os.unlink(path)
        except OSError:
            pass


def _nonterm(res, path, sb, text, stdin, ro, re_):
    """Non-terminating (or over-budget) program: whatever each level delivered before the CPU limit
    must be prefix-compatible with the unoptimised output (and with the reference prefix)."""
    res['status'] = 'nonterm'
    outs = []
    for level in (0, 1, 2):
        obs = P.run_interp(C.HYEONG, path, level, sb, cpu=1, wall=60)
        outs.append(obs)
    base = outs[0]
    compared = 0
    for level in (1, 2):
        o = outs[level]
        if o.kind == 'crash':
            continue   # crash handling belongs to C13; here only outputs are judged
        for a, b, what in ((base.out, o.out, 'stdout'), (P.split_diag(base.err, re_)[0], P.split_diag(o.err, re_)[0], 'stderr')):
            n = min(len(a), len(b))
            compared += n
            if a[:n] != b[:n]:
                sig = 'NT-O%d:%s' % (level, C.sha(text + '\0' + stdin))
                res['items'].append(('v', sig, 'outputs of a non-terminating program are not prefix-compatible', {
                    'program': text, 'stdin': stdin, 'level': level, 'stream': what,
                    'unoptimised': C.clip(a, 300), 'optimised': C.clip(b, 300)}))
    res['hist'] = {'nonterm_bytes_compared': compared, 'nonterm_cases': 1}
    res['feat'] = ['nonterm'] if compared else []
    return res


def main(tier, seed):
    t0 = time.time()
    rep = C.Reporter(PID, tier, seed)
    C.build(['repo'])
    C.sweep_stale_tmp()
    n = 4000 if tier == 'quick' else 120000
    rundir = C.mktmp(PID)
    _RUN.update(tier=tier, seed=seed, dir=rundir)
    results = C.pmap(_case, list(range(n)), chunksize=4, stop_after_bad=60,
                     is_bad=lambda r: any(it[0] == 'v' for it in r['items']))
    hist, srcs, featc, rejects = {}, {}, {}, {}
    evaluated = 0
    nontrivial = set()
    samples = []
    for r in results:
        rep.merge(r['items'])
        if r['status'].startswith('reject'):
            rejects[r['status']] = rejects.get(r['status'], 0) + 1
            continue
        evaluated += 1
        srcs[r.get('src', '?')] = srcs.get(r.get('src', '?'), 0) + 1
        C.add_hist(hist, r['hist'])
        for f in r['feat']:
            featc[f] = featc.get(f, 0) + 1
        if r['feat']:
            nontrivial.add(r['key'])
        if 'sample' in r and r['feat'] and len(samples) < 6 and (len(r['feat']) >= 3 or r['i'] % 50 == 0):
            samples.append(r['sample'])
    if not samples:
        samples = [r['sample'] for r in results if 'sample' in r][:3]
    cov = {
        'evaluations': evaluated, 'distinct_nontrivial': len(nontrivial),
        'rule': 'cases = (program from random/template/corpus-mutation generators + optional observation epilogue) x stdin text, '
                'admitted iff the reference interpreter finishes within the step/value/output caps; each is run with the real binary at '
                '-O0, -O1 and -O2 and the optimised observables are compared with the -O0 observables. non-trivial = the reference run '
                'exercised at least one listed feature (jump, stdin read, exit via stack 1/2, encoding error, >100 jumps, partial '
                'pre-executed prefix, fraction/NaN compare, multi-operand command, ...); distinct = by hash of program text + stdin.',
        'samples': samples, 'generated': n, 'rejected_by_admission': rejects, 'sources': srcs,
        'features_observed': featc, 'histogram': hist, 'levels_run': [0, 1, 2],
        'runs_of_real_binary': evaluated * 3,
    }
    assumptions = [
        'reference interpreter (hv/refinterp.py) is used to admit cases and classify features; the verdict compares real -O1/-O2 runs with the real -O0 run',
        'observables: stdout after the `==> running code` header line, stderr, exit status, through real pipes',
        'dev-profile build of the current /repo working tree (overflow checks, debug assertions)',
    ]
    minimum = {'evaluations': (evaluated, 300 if tier == 'quick' else 5000),
               'jump': (featc.get('jump', 0), 50), 'stdin': (featc.get('stdin', 0), 30),
               'rollback_budget': (featc.get('rollback_budget', 0), 3),
               'abandoned_return_then_other_jump': (featc.get('abandoned_return_then_other_jump', 0), 20),
               'partial_prefix': (featc.get('partial_prefix', 0), 30),
               'stack0_used_as_data': (featc.get('stack0_used_as_data', 0), 30)}
    return rep.finish(cov, assumptions, t0, minimum)
