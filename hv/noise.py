"""Rendering of command lists as source text with ignorable noise (C08), random raw texts (C04),
and a reader for the bracketed-infix area rendering used by `hyeong check`."""
from .lang import HEARTS, SINGLE, START, END, SYM, build_area

END_CLASS_OF_KIND = {0: '엉', 1: '앙앗', 2: '앙앗', 3: '읏읍윽', 4: '읏읍윽', 5: '읏읍윽'}
ALL_ENDS = '엉앙앗읏읍윽'
STARTERS = '혀하흐'
COMMAND_CHARS = set(SINGLE) | set(STARTERS)
PLAIN_HANGUL = list('가나다라마바사아자차카타파어으이우에오힣갛뷁') + ['\uac00', '\ud7a3']
FOREIGN = list(' \t\n\r') + list('abcXYZ019,;:-_()[]{}"\'\\/#*') + ['　', '\u0085', '\u00a0', '\u2028', 'é', 'ß', '中', 'ひ', 'ｈ',
                                                                    '😀', '\U0001f600', '\u0301', '\ufe0f', '\u200d', '\uabff',
                                                                    '\ud7a4', '\u1100', '\u3131', '\x00', '\x7f', '\U0010ffff']
DOT1 = '.'
DOT3 = ['…', '⋯', '⋮']


def _noise(rng, kinds, maxn=3):
    """kinds: string of classes allowed: f foreign/whitespace, h plain hangul, e stray end syllables,
    d dots/ellipses, a area characters"""
    n = 0
    while rng.random() < 0.35 and n < maxn:
        n += 1
    out = []
    for _ in range(n):
        k = rng.choice(kinds)
        if k == 'f':
            out.append(rng.choice(FOREIGN))
        elif k == 'h':
            out.append(rng.choice(PLAIN_HANGUL))
        elif k == 'e':
            out.append(rng.choice(ALL_ENDS))
        elif k == 'd':
            out.append(rng.choice([DOT1] + DOT3))
        elif k == 'a':
            out.append(rng.choice(['?', '!'] + HEARTS))
    return ''.join(out)


def render_noisy(rng, cmds, level=1.0):
    """Write the command list as text, sprinkling noise only where the grammar ignores it.
    -> text.  (level scales how much noise; 0 = minimal text.)"""
    def nz(kinds, maxn=3):
        return _noise(rng, kinds, maxn) if rng.random() < level else ''

    parts = []
    # prefix before the first command: anything but command starts, INCLUDING area characters and dots
    parts.append(nz('fhedaad', 6))
    for (t, h, d, a) in cmds:
        # --- syllable part
        if h == 1:
            parts.append(SINGLE[t])
        else:
            forbidden = END_CLASS_OF_KIND[t]
            parts.append(START[t])
            for _ in range(h - 2):
                parts.append(nz('fda', 2))           # non-Hangul noise inside the syllable part is ignored
                if rng.random() < 0.5 * level:
                    # arbitrary filler syllable (any Hangul but a matching end syllable), it counts
                    while True:
                        c = rng.choice(PLAIN_HANGUL + list(SINGLE) + list(STARTERS) + list(ALL_ENDS))
                        if c not in forbidden:
                            break
                    parts.append(c)
                else:
                    parts.append({0: '어', 1: '아', 2: '아', 3: '으', 4: '으', 5: '으'}[t])
            parts.append(nz('fda', 2))
            parts.append(END[t])
        # --- dots
        left = d
        while left > 0:
            parts.append(nz('fhe', 2))
            if left >= 3 and rng.random() < 0.4:
                parts.append(rng.choice(DOT3))
                left -= 3
            else:
                parts.append(DOT1)
                left -= 1
        parts.append(nz('fhe', 2))
        # --- area: Q := B ('?' B)* ; B := S ('!' S)* ; S := [heart]
        if a is not None:
            parts.append(_render_area_noisy(rng, a, nz))
    # suffix: noise; stray start syllables only here (after the last end syllable of the whole text)
    tail = nz('fh', 4)
    if rng.random() < 0.3 * level:
        tail += rng.choice(STARTERS) + nz('fh', 3)
        if rng.random() < 0.5:
            tail += rng.choice(STARTERS)
    parts.append(tail)
    return ''.join(parts)


def _flatten_area(a):
    """grammar-shaped tree -> list (per '?'-part) of lists (per '!'-part) of slots"""
    qparts = []
    x = a
    while isinstance(x, tuple) and x[0] == '?':
        qparts.append(x[1])
        x = x[2]
    qparts.append(x)
    out = []
    for b in qparts:
        slots = []
        y = b
        while isinstance(y, tuple) and y[0] == '!':
            slots.append(y[1])
            y = y[2]
        slots.append(y)
        out.append(slots)
    return out


def _render_area_noisy(rng, a, nz):
    flat = _flatten_area(a)
    out = []
    first = True
    for qi, slots in enumerate(flat):
        if qi > 0:
            out.append('?')
            first = False
        for si, s in enumerate(slots):
            if si > 0:
                out.append('!')
                first = False
            # the very first area character must be a real one: noise dots before it would be COUNTED
            if s is not None:
                if first:
                    out.append(HEARTS[s - 2])
                    first = False
                else:
                    out.append(nz('fhed', 2))
                    out.append(HEARTS[s - 2])
                # redundant hearts after the first heart of a slot are ignored
                out.append(nz('fhedaH', 3).replace('?', '').replace('!', '') if True else '')
            else:
                if not first:
                    out.append(nz('fhed', 2))
    return ''.join(out)


# `nz('...H')` has no class H in _noise: redundant hearts come from class 'a' with ?/! filtered out above.


def random_area(rng, maxops=6):
    nq = rng.choice([0, 0, 1, 1, 2, 3, rng.randint(0, maxops)])
    parts = []
    for _ in range(nq + 1):
        nb = rng.choice([0, 0, 0, 1, 2, rng.randint(0, max(0, maxops // 2))])
        parts.append([None if rng.random() < 0.35 else rng.randint(2, 13) for _ in range(nb + 1)])
    return build_area(parts)


def random_cmds(rng, nmax=8, big=False):
    cmds = []
    for _ in range(rng.randint(1, nmax)):
        t = rng.randint(0, 5)
        h = rng.choice([1, 1, 2, 2, 3, 4, rng.randint(1, 12)])
        d = rng.choice([0, 0, 1, 2, 3, 4, rng.randint(0, 15)])
        if big and rng.random() < 0.3:
            h = rng.choice([h, rng.randint(50, 5000)])
            d = rng.choice([d, rng.randint(50, 5000)])
        a = None if rng.random() < 0.35 else random_area(rng, 300 if (big and rng.random() < 0.2) else 6)
        cmds.append((t, h, d, a))
    return cmds


# ------------------------------------------------------------------------------- raw random texts
ALPHA = (list('형항핫흣흡흑혀하흐엉앙앗읏읍윽어아으') * 3 + ['가', '힣', '\uac00', '\ud7a3', '\uabff', '\ud7a4'] + list('.…⋯⋮') * 3
         + list('?!') * 4 + HEARTS + list(' \n\tab1,;') + ['　', '😀', 'é', '\r', '\u0085', '\u2028', '\u0301', '\ufe0f', '\x00',
            '\ufeff', '\u200b', '\u00a0', '\u00ad', '\u2060', '\U0010ffff', '\ufffd', '\x0b', '\x0c', '\x1f', '\x7f'])


SPECIALS = list('형항핫흣흡흑혀하흐엉앙앗읏읍윽') + list('.…⋯⋮?!') + HEARTS
NEIGHBOURS = sorted({chr(ord(c) + d) for c in SPECIALS for d in (-2, -1, 1, 2) if 0 < ord(c) + d < 0x110000 and not (0xd800 <= ord(c) + d <= 0xdfff)}
                    - set(SPECIALS)) + ['？', '！', '‥', '·', '❣', '❥', '♢', '♤', '💓', '💔', '💞', '💟', '\u1112', '\u3147', '\uffa0']


def neighbour_text(rng, maxlen=40):
    """Characters ADJACENT to the entries of the parser's tables (hearts, dots, command / start / end syllables) mixed
    with the real ones: none of the neighbours has any meaning in the grammar."""
    n = rng.randint(1, maxlen)
    return ''.join(rng.choice(NEIGHBOURS) if rng.random() < 0.4 else rng.choice(SPECIALS + [' ', '\n']) for _ in range(n))


def random_text(rng, maxlen=60):
    n = rng.randint(0, rng.choice([5, 20, maxlen]))
    return ''.join(rng.choice(ALPHA) for _ in range(n))


def escape_record(s):
    return s.replace('\\', '\\\\').replace('\n', '\\n').replace('\r', '\\r')


# ----------------------------------------------------------------- reader for bracketed infix areas
def parse_display(s):
    """`[a]?[b]`, `_`, heart -> tree (inverse of Display for Area). Raises ValueError."""
    pos = 0
    n = len(s)
    # iterative recursive descent: frames hold (stage, op, left)
    stack = []
    result = None
    while True:
        if result is None:
            if pos >= n:
                raise ValueError('unexpected end')
            c = s[pos]
            if c == '[':
                stack.append(['L', None, None])
                pos += 1
                continue
            if c == '_':
                result = ('leaf', None)
                pos += 1
            elif c in SYM[2:]:
                result = ('leaf', SYM.index(c))
                pos += 1
            else:
                raise ValueError('unexpected %r at %d' % (c, pos))
        # a value is complete: give it to the enclosing frame
        val = result[1]
        if not stack:
            if pos != n:
                raise ValueError('trailing text at %d' % pos)
            return val
        fr = stack[-1]
        if fr[0] == 'L':
            if s[pos:pos + 1] != ']' or s[pos + 1:pos + 2] not in ('?', '!') or s[pos + 2:pos + 3] != '[':
                raise ValueError('expected ]op[ at %d' % pos)
            fr[0] = 'R'
            fr[1] = s[pos + 1]
            fr[2] = val
            pos += 3
            result = None
        else:
            if s[pos:pos + 1] != ']':
                raise ValueError('expected ] at %d' % pos)
            pos += 1
            stack.pop()
            result = ('leaf', (fr[1], fr[2], val))
