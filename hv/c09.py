"""C09 — numbers survive being written as text and read back.

Events: BigNum::to_string_base(b) text and from_string_base(text, b) for b in 2..36; Num Display and
Num::from_string(Display).  Oracle: conventional rendering computed by Python (digits 0-9A-Z, leading
minus, no leading zeros, "0" for zero); identity on read-back (as values; canonical form of the re-read
rational; NaN reads back as NaN).
"""
import time
from fractions import Fraction
from . import common as C
from . import numlib as N

PID = 'C09'
MOD = 'hv.c09'


def _nan_tok(tok):
    return None if tok == N.exp_num(None) else 'NaN must read back as NaN'


def gen_cases(rng, n, tier):
    maxl = 6 if tier == 'quick' else 12
    out = []
    for _ in range(n):
        k = rng.random()
        if rng.random() < 0.04:
            # object history: the same object is rendered, changed in place, rendered again (numlib.big_history / num_history)
            out.append(N.big_history(rng, maxl=min(maxl, 4)) if rng.random() < 0.5 else N.num_history(rng, maxl=2))
            continue
        if k < 0.6:
            base = rng.choice([2, 3, 7, 8, 10, 10, 16, 16, 35, 36, rng.randint(2, 36), rng.randint(2, 36)])
            r = rng.random()
            if r < 0.15:
                # limbs that are powers of the base (the chunk sizes of chunked conversions), next to boundary limbs
                pw = [base ** k for k in range(1, 33) if base ** k < 2 ** 32]
                v = 0
                for i in range(rng.randint(2, maxl)):
                    v |= rng.choice(pw[-3:] + [pw[-1], pw[-1] - 1, pw[-1] + 1, 0, rng.getrandbits(32)]) << (32 * i)
            elif r < 0.3:
                e = rng.randint(0, (32 * maxl) // max(1, base.bit_length()))
                v = base ** e + rng.choice([-1, 0, 1])
            else:
                v = N.rand_mag(rng, maxl)
            if rng.random() < 0.5:
                v = -v
            text = N.to_base(v, base)
            V = N.limbs_tok(v)
            script = '%s btostr:%d dup out bfromstr:%d dup out %s beq out' % (V, base, base, V)
            out.append({'script': script, 'expect': ['s|' + text, N.exp_big(v), 'b|1'], 'tag': 'bigint_base',
                        'tags': ['base:%d' % base, 'neg' if v < 0 else ('zero' if v == 0 else 'pos'),
                                 'limbs:%d' % (abs(v).bit_length() // 32 + 1)],
                        'desc': 'to_string_base/from_string_base base %d' % base, 'trivial': abs(v) < 10})
        elif k < 0.68:
            # reading conventional text produced by the oracle (independent of to_string_base)
            base = rng.randint(2, 36)
            v = N.rand_int(rng, maxl)
            text = N.to_base(v, base)
            script = 'S%s bfromstr:%d dup out %s beq out' % (text, base, N.limbs_tok(v))
            out.append({'script': script, 'expect': [N.exp_big(v), 'b|1'], 'tag': 'bigint_read',
                        'tags': ['base:%d' % base], 'desc': 'from_string_base of oracle text, base %d' % base, 'trivial': abs(v) < 10})
        else:
            r = rng.random()
            if r < 0.08:
                ctor, v = rng.choice([('nnan', None), ('nnan nneg', None), ('nzero nflip', None), ('nnan none nadd', None)])
            else:
                p = N.rand_int(rng, 3)
                q = N.rand_mag(rng, 3) or 1
                if rng.random() < 0.25:
                    q = 1
                elif rng.random() < 0.2:
                    # numerator and denominator in a RELATION (reading the text reduces the fraction: the first quotient of the
                    # gcd equals the divisor, a multiple of it, or a power): x^2 +- 1 over x, (x + 1) x + 1 over x, x^3 + 1 over x^2
                    x = (N.rand_mag(rng, 4) or 3) if rng.random() < 0.5 else N.rand_runs(rng, rng.randint(2, 6))
                    x = max(x, 2)
                    p, q = rng.choice([(x * x + 1, x), (x * x - 1, x) if x > 2 else (5, 2), ((x + 1) * x + 1, x), (x ** 3 + 1, x * x),
                                       (x * x + 1, x + 1) if x % 2 == 0 else (x * x + 1, x), (x, x * x + 1)])
                    if rng.random() < 0.4:
                        p = -p
                ctor, v = '%s %s nfrombig' % (N.limbs_tok(p), N.limbs_tok(q)), Fraction(p, q)
            if v is None:
                script = '%s ntostr dup out nfromstr out' % ctor
                expect = ['s|' + N.fr_text(None), _nan_tok]
                tags = ['rational:nan']
            else:
                script = '%s dup ntostr dup out nfromstr dup out neq out' % ctor
                expect = ['s|' + N.fr_text(v), N.exp_num(v), 'b|1']
                tags = ['rational:' + ('neg' if v < 0 else 'nonneg') + ('_frac' if v.denominator != 1 else '_int')]
            out.append({'script': script, 'expect': expect, 'tag': 'rational_text', 'tags': tags,
                        'desc': 'Num Display -> from_string', 'trivial': False})
    return out


def main(tier, seed):
    t0 = time.time()
    rep = C.Reporter(PID, tier, seed)
    C.build(['num'])
    shards, per = (32, 800) if tier == 'quick' else (160, 9400)
    bad, hist, samples, n = N.run_sharded(MOD, tier, seed, shards, per)
    for c, why in bad:
        rep.violation('num:' + c['script'], 'text round trip of a number fails',
                      {'script': c['script'], 'what': c['desc'], 'problem': why, 'replay': "echo '<script>' | %s" % C.HV_NUM})
    distinct = hist.pop('_distinct', 0)
    bases = sorted(int(k.split(':')[1]) for k in hist if k.startswith('base:'))
    cov = {
        'evaluations': n, 'distinct_nontrivial': distinct,
        'rule': 'integers of 1..%d limbs (both signs, zero, powers of the base +-1) x bases 2..36: rendering must equal the conventional text '
                'and read back to the same value; oracle-produced conventional text must read to the right value; canonical rationals '
                '(negative, fractions, integers, zero) and NaN (built four ways): Display -> from_string must give an equal, canonical number / NaN. '
                'non-trivial = |value| >= 10 or a rational; distinct by script.' % (6 if tier == 'quick' else 12),
        'samples': samples, 'histogram': hist, 'bases_exercised': bases,
    }
    assumptions = ['Python digit loop is the oracle for base conversion', 'base 1 and digits not below the base are outside the claim and never generated',
                   'NaN equality is not judged: NaN must read back as NaN']
    minimum = {'evaluations': (n, 3000), 'object histories': (hist.get('object_history', 0), 300), 'bases': (len(bases), 30), 'rational:nan': (hist.get('rational:nan', 0), 30),
               'negative fractions': (hist.get('rational:neg_frac', 0), 100)}
    return rep.finish(cov, assumptions, t0, minimum)
