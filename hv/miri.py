"""Undefined-behaviour interpreter (Miri) slices for the thorough tiers.  Tripwires: the repository has no
`unsafe` today, so these are silent by construction; they exist so that an `unsafe` shortcut introduced later
(unchecked indexing, unchecked char/UTF-8 conversion) is interpreted rather than trusted."""
import os
import subprocess
from . import common as C

CORE = os.path.join(C.ROOT, 'harness', 'core', 'Cargo.toml')
TARGET = os.path.join(C.BUILD, 'miri-core')


def miri_run(binary, args, stdin_bytes, timeout=900):
    """-> (status, stdout, stderr) with status in ok | ub | failed | timeout"""
    env = dict(os.environ)
    env['CARGO_NET_OFFLINE'] = 'true'
    env['MIRIFLAGS'] = '-Zmiri-disable-isolation'
    env['RUST_BACKTRACE'] = '0'
    cmd = ['cargo', '+nightly', 'miri', 'run', '--offline', '--manifest-path', CORE, '--target-dir', TARGET, '--bin', binary, '--'] + args
    try:
        p = subprocess.run(cmd, input=stdin_bytes, stdout=subprocess.PIPE, stderr=subprocess.PIPE, env=env, timeout=timeout)
    except subprocess.TimeoutExpired:
        return 'timeout', b'', b''
    except OSError as e:
        return 'failed', b'', str(e).encode()
    err = p.stderr
    if b'Undefined Behavior' in err:
        return 'ub', p.stdout, err
    if b'error: unsupported operation' in err or (p.returncode not in (0, 1) and b'panicked' not in err and not p.stdout):
        return 'failed', p.stdout, err
    return 'ok', p.stdout, err


def unsafe_occurrences():
    out = subprocess.run(['grep', '-rc', 'unsafe', os.path.join(C.REPO, 'src')], stdout=subprocess.PIPE).stdout.decode()
    return sum(int(x.rsplit(':', 1)[1]) for x in out.split() if ':' in x)
