"""Shared machinery for monitors that observe COMPILED programs (C03, C14): emit the Rust source with
hv_emit (compile::build_source wired as src/app/build.rs), compile it UNMODIFIED with rustc against the
number-only build of the current /repo, run the executable with piped stdin."""
import os
import shutil
from . import common as C
from .progcheck import RunObs


def emit(prog_path, level):
    """-> (status, source_bytes|message) status in ok, optimize_error, crash, infra"""
    p = C.run_proc([C.HV_EMIT, prog_path, str(level)], b'SENTINEL-THE-EMITTER-MUST-NOT-READ\n', cpu=60)
    if p.wall_timeout:
        return 'infra', 'wall-clock watchdog in hv_emit'
    if p.rc == 3 and b'OPTIMIZE-ERROR' in p.err:
        return 'optimize_error', p.errs()
    if p.cpu_killed:
        return 'cpu', 'optimising/emitting exceeded the CPU limit'
    if p.crashed or p.rc != 0:
        return 'crash', 'rc=%s %s' % (p.rc, C.clip(p.err, 600))
    return 'ok', p.out


def rustc(src_path, exe_path, numlib=None):
    """-> (ok, diagnostics). One retry to rule out an infrastructure hiccup.
    With the release number library the program is compiled the way `hyeong build` does (cargo --release):
    optimised, overflow checks off."""
    release = numlib is not None and '/release/' in numlib
    numlib = numlib or C.NUMLIB
    cmd = ['rustc', '--edition', '2018', '-C', 'debuginfo=0'] + (['-C', 'opt-level=3'] if release else ['-C', 'opt-level=0', '-C', 'overflow-checks=on']) + [
           '--extern', 'hyeong=' + numlib, '-L', 'dependency=' + os.path.join(os.path.dirname(numlib), 'deps'),
           src_path, '-o', exe_path]
    env = {'HOME': C.REAL_HOME}
    last = None
    for attempt in range(2):
        p = C.run_proc(cmd, b'', cpu=300, wall=600, env=env)
        if p.rc == 0 and os.path.exists(exe_path):
            return True, ''
        last = p
        if p.wall_timeout:
            continue
        if b'error' in p.err and attempt == 0:
            continue
    return False, ('wall-clock watchdog' if last.wall_timeout else C.clip(last.err, 1500))


def build_exe(workdir, prog_path, level, numlib=None):
    """-> (status, exe_path|detail, source_text) ; status: ok | optimize_error | emit_crash | emit_cpu | rustc_rejected | infra"""
    st, src = emit(prog_path, level)
    if st == 'optimize_error':
        return 'optimize_error', src, None
    if st == 'infra':
        return 'infra', src, None
    if st == 'cpu':
        return 'emit_cpu', src, None
    if st == 'crash':
        return 'emit_crash', src, None
    sp = os.path.join(workdir, 'm%d.rs' % level)
    ep = os.path.join(workdir, 'm%d' % level)
    with open(sp, 'wb') as f:
        f.write(src)
    ok, diag = rustc(sp, ep, numlib)
    text = src.decode('utf-8', 'replace')
    if not ok:
        if diag == 'wall-clock watchdog':
            return 'infra', diag, text
        return 'rustc_rejected', diag, text
    return 'ok', ep, text


PANIC_MARK = "thread 'main'"


def run_exe(exe, stdin_bytes, cpu=10, wall=120):
    """-> RunObs; kind in end, exit1, abnormal (panic = the compiled program's form of an encoding error),
    crash (signal/abort), cpu, wall, other.  err is the program's own stderr text (panic report cut off)."""
    p = C.run_proc([exe], stdin_bytes, cpu=cpu, wall=wall)
    out = p.outs()
    err = p.errs()
    prog_err = err
    if p.wall_timeout:
        kind = 'wall'
    elif p.cpu_killed:
        kind = 'cpu'
    elif p.rc == 101 and PANIC_MARK in err:
        kind = 'abnormal'
        prog_err = err[:err.index(PANIC_MARK)]
    elif p.sig is not None or p.rc == 134:
        kind = 'crash'
    elif p.rc == 0:
        kind = 'end'
    elif p.rc == 1:
        kind = 'exit1'
    else:
        kind = 'other'
    o = RunObs(kind, out, prog_err, p.rc, p)
    return o


def compare_compiled(base, obs, ref_err=''):
    """base: RunObs of `hyeong run -O0`; obs: RunObs of the compiled program. -> None | reason."""
    if base.kind in ('wall', 'cpu', 'crash', 'noheader', 'other') or obs.kind == 'wall':
        return 'INCONCLUSIVE base=%s compiled=%s' % (base.kind, obs.kind)
    if base.kind == 'encerr':
        if obs.kind != 'abnormal':
            return 'interpreter stops with an encoding error, compiled program ends with %s (rc=%s)' % (obs.kind, obs.rc)
        if 'unwrap' not in obs.proc.errs() and 'None' not in obs.proc.errs():
            return 'compiled program stopped abnormally for another reason: %s' % C.clip(obs.proc.errs(), 300)
        from .progcheck import split_diag
        bp = split_diag(base.err, ref_err)[0]
        # C03 (unlike C02) does not allow text written before the stop to be withheld: same stdout, same stderr text
        if obs.out != base.out:
            return 'stdout before the abnormal stop differs from the interpreter text (%d vs %d characters)' % (len(obs.out), len(base.out))
        cand = obs.err
        if not (cand == bp or (cand.endswith('\n') and cand[:-1] == bp)):
            return 'stderr text before the abnormal stop differs from the interpreter text'
        return None
    if obs.kind != base.kind:
        return 'ending: interpreter %s (rc=%s), compiled program %s (rc=%s) %s' % (
            base.kind, base.rc, obs.kind, obs.rc, C.clip(obs.proc.errs()[-300:], 300) if obs.kind in ('abnormal', 'crash') else '')
    if obs.out != base.out:
        return 'stdout differs'
    if obs.err != base.err:
        return 'stderr differs'
    return None


def rm(path):
    shutil.rmtree(path, ignore_errors=True)
