"""C14 — Unicode text passes through a program unchanged.

Events: stdout bytes / exit status of copy programs given stdin bytes, in six configurations
(interpreter -O0/-O1/-O2, compiled level 0/1/2).
Oracle: identity (or reversal of the copied span) computed directly from the input text plus the expected
NaN suffix — independent of the reference interpreter — and, second, the reference interpreter on
short inputs validates the program family and the formulas themselves.
"""
import os
import time
from . import common as C
from . import progcheck as P
from . import compilecheck as K
from .lang import NANTXT, render_prog
from .refinterp import Machine, Limits

PID = 'C14'
_RUN = {}
BIG = (1024, 1088)      # 1024 syllables x 1088 dots = 1 114 112 = 0x110000: every scalar value is below it


def prog_copy_k(k):
    return [(5, 1, 0, None)] + [(1, 1, 1, None)] * k


def prog_cat(exit_variant=False):
    p = [(5, 1, 0, None), (0, BIG[0], BIG[1], ('?', None, 2)), (5, 1, 0, None), (1, 1, 1, None),
         (0, BIG[0], BIG[1], ('?', None, ('?', 2, None)))]
    if exit_variant:
        p += [(0, 1, 33, None), (5, 1, 1, None), (1, 1, 3, None), (0, 1, 63, None), (1, 1, 1, None)]
    return p


def prog_cat_cushion(nz=2, kind='add'):
    # the same loop, but every character is READ by a multi-operand command over a cushion of own values that the
    # program keeps on top of stack 0: the read happens in the middle of one command, below values the program pushed itself
    #   add: 0 + 0 + c sent back to stack 0;  mul: 1 * 1 * c sent back to stack 0;
    #   neg: push 0, negate the top two values (0 and c) twice (the sums go to a junk stack), move the 0 away
    p = prog_cat(False)
    if kind == 'add':
        fetch = [(0, 1, 0, None)] * nz + [(1, nz + 1, 0, None)]
    elif kind == 'mul':
        fetch = [(0, 1, 1, None)] * nz + [(2, nz + 1, 0, None)]
    else:
        fetch = [(0, 1, 0, None), (3, 2, 5, None), (3, 2, 5, None), (1, 1, 4, None)]
    return p[:2] + fetch + p[2:]


def prog_reverse_k(k, m):
    # move k characters to stack 4, 흑.... pops one more, copies it to 4, pushes it back on 0; print k+1 from 4;
    # select stack 0 again and copy m more characters: the pushed-back character must come first
    return ([(5, 1, 0, None)] + [(1, 1, 4, None)] * k + [(5, 1, 4, None)] + [(1, 1, 1, None)] * (k + 1)
            + [(5, 1, 0, None)] + [(1, 1, 1, None)] * m)


def expect_copy_k(k, text):
    return text[:k] + NANTXT * max(0, k - len(text))


def expect_cat(text, exit_variant=False):
    return text + NANTXT + ('!' if exit_variant else '')


def expect_reverse(k, m, text):
    """valid only for len(text) >= k+1.  Selecting stack 0 again pops NaN from the emptied scratch stack and
    copies it onto stack 0, which is NOT empty (it holds the pushed-back character), so the NaN is kept:
    the m copied items are NaN, the pushed-back character, then the following input."""
    return text[k] + text[:k][::-1] + ((NANTXT + expect_copy_k(m - 1, text[k:])) if m > 0 else '')


PROGRAMS = []
for _k in (0, 1, 2, 3, 7, 20, 64, 300):
    PROGRAMS.append(('copy_%d' % _k, prog_copy_k(_k), lambda t, k=_k: expect_copy_k(k, t), 0))
# programs that END BY A PROGRAM-REQUESTED EXIT 1 (pop from stack 2) right after writing: everything written before must
# have been delivered.  Selecting stack 2 with 흑.. copies the next character (or NaN) to stderr first.
EXTRA = {}
for _k in (0, 2, 5, 20):
    PROGRAMS.append(('copy_%d_exit1' % _k, prog_copy_k(_k) + [(5, 1, 2, None), (1, 1, 3, None), (0, 1, 65, None), (1, 1, 1, None)],
                     lambda t, k=_k: expect_copy_k(k, t), 0))
    EXTRA['copy_%d_exit1' % _k] = {'kind': 'exit1', 'err': (lambda t, k=_k: t[k] if len(t) > k else NANTXT)}
PROGRAMS.append(('cat', prog_cat(False), lambda t: expect_cat(t, False), 0))
PROGRAMS.append(('cat_exit', prog_cat(True), lambda t: expect_cat(t, True), 0))
def prog_cat_leftnest():
    # a two-round copy loop whose loop head is `항...💗!?`: the label heart sits under `!` in the LEFT operand of `?`
    # (area [[💗]![_]]?[_]) and the loop is closed by a second command of the same shape; plain commands precede both
    from . import refparse
    half = '형... 흑 항.... 항. 흑... 형 하앗... 형... 하앙... 형 항...💗!?'
    return refparse.commands_only(refparse.parse(half + '\n' + half + '\n'))


PROGRAMS.append(('cat_leftnest', prog_cat_leftnest(), lambda t: t + NANTXT * max(0, 2 - len(t)), 0))
PROGRAMS.append(('cat_cushion', prog_cat_cushion(2), lambda t: expect_cat(t, False), 0))
PROGRAMS.append(('cat_cushion_mul', prog_cat_cushion(2, 'mul'), lambda t: expect_cat(t, False), 0))
PROGRAMS.append(('cat_cushion_neg', prog_cat_cushion(1, 'neg'), lambda t: expect_cat(t, False), 0))
for _k, _m in ((1, 2), (2, 0), (5, 7), (17, 40)):
    PROGRAMS.append(('reverse_%d_%d' % (_k, _m), prog_reverse_k(_k, _m), lambda t, k=_k, m=_m: expect_reverse(k, m, t), _k + 1))

BOUNDARY = [0x00, 0x7f, 0x80, 0x7ff, 0x800, 0xd7ff, 0xe000, 0xffff, 0x10000, 0x10ffff, 0x0a, 0x0d, 0x20, 0x85, 0x2028, 0xfeff, 0xfffd, 0xfffe, 0x10fffe, 0x1ffff, 0xd7fe, 0xe001]


def gen_text(rng, tier):
    k = rng.random()
    if k < 0.05:
        return 'empty', ''
    if k < 0.1:
        return 'only_newlines', '\n' * rng.randint(1, 5)
    if k < 0.2:
        return 'boundaries', ''.join(chr(rng.choice(BOUNDARY)) for _ in range(rng.randint(1, 40)))
    if k < 0.27:
        n = rng.choice([1000, 10000]) if tier == 'quick' else rng.choice([10000, 100000])
        return 'long_line', ''.join(chr(rng.choice([0x41, 0xe9, 0xac00, 0x1f600, 0x7f, 0x10ffff])) for _ in range(n)) + rng.choice(['', '\n', '\nx'])
    if k < (0.29 if tier == 'quick' else 0.3):
        # one very long line of multi-byte characters with a random ASCII shift: every power-of-two byte
        # offset (4 KiB, 8 KiB, 64 KiB buffers) falls inside some character
        n = rng.choice([3000, 9000, 23000, 30000]) if tier == 'quick' else rng.choice([9000, 30000, 70000])
        ch = rng.choice(['한', 'é', '😀', '한'])
        return 'long_multibyte_line', 'a' * rng.randint(0, 3) + ch * n + rng.choice(['\n', '\nsecond é line\n', ''])
    if k < 0.32:
        n = rng.choice([100, 1000])
        return 'many_lines', ''.join(rng.choice(['', 'a', '가나', '\r', '😀z']) + '\n' for _ in range(n)) + rng.choice(['', 'end'])
    n = rng.randint(1, 120)
    s = []
    for _ in range(n):
        r = rng.random()
        if r < 0.12:
            s.append('\n')
        elif r < 0.15:
            s.append('\r\n')
        elif r < 0.45:
            s.append(chr(rng.randint(0x20, 0x7e)))
        elif r < 0.6:
            s.append(chr(rng.choice(BOUNDARY)))
        else:
            c = rng.randint(0, 0x10ffff)
            if 0xd800 <= c <= 0xdfff:
                c = rng.choice([0xd7ff, 0xe000])
            s.append(chr(c))
    return 'random', ''.join(s)


def _build(job):
    name, level = job
    d = os.path.join(_RUN['dir'], name)
    st, what, src = K.build_exe(d, os.path.join(d, 'p.hyeong'), level)
    return name, level, st, (what if st != 'ok' else what)


def _case(i):
    tier, seed = _RUN['tier'], _RUN['seed']
    rng = C.rng_for(seed, PID, tier, i)
    res = {'i': i, 'items': [], 'hist': {}}
    kind, text = gen_text(rng, tier)
    if i < 2:
        # always present: one line longer than 64 KiB made of multi-byte characters (3-byte, then 4-byte)
        kind = 'long_multibyte_line'
        text = 'a' * rng.randint(0, 3) + (['한', '😀'][i]) * [30000, 23000][i] + ['\n', '\nsecond é line\n'][i]
    aligned = None
    if 2 <= i < 8:
        aligned = ([12, 13, 16][(i - 2) % 3], [1, 2][(i - 2) // 3])
    elif kind == 'long_multibyte_line' and rng.random() < 0.5:
        aligned = (rng.choice([12, 13, 13, 16]), rng.randint(0, 4))
    if aligned is not None:
        # the long multi-byte line STARTS at a byte offset just below a power of two (after short lines) and is longer
        # than 64 KiB: stream-level buffer boundaries (4 KiB, 8 KiB, 64 KiB) and line-level ones fall into one character
        kind = 'aligned_long_line'
        want_off = 2 ** aligned[0] - aligned[1]
        pre, off = [], 0
        while want_off - off > 0:
            ln = min(want_off - off, rng.choice([1, 2, 17, 64, 300]))
            pre.append('x' * (ln - 1) + '\n')
            off += ln
        chs = rng.choice(['한', '€', '한', '😀한', 'é한'])
        text = ''.join(pre) + 'b' * rng.choice([0, 0, 1, 2, 65535]) + chs * (23000 // len(chs) + rng.randint(0, 3)) + rng.choice(['\n', '\nlast line without terminator', ''])
    only_cfg = None
    if 8 <= i < 14:
        # ONE line longer than 1 MiB made of 3-byte characters (a character lies across byte 2^20 of the line), copied by
        # the until-end-of-input program; one configuration per case so that the six runs proceed in parallel
        kind = 'mega_line'
        only_cfg = ('i0', 'i1', 'i2', 'c0', 'c1', 'c2')[i - 8]
        # (shift 0 or 2: the character starting at byte 2^20 - 1 resp. 2^20 - 2 of the line covers byte 2^20)
        text = 'ab'[:(0, 2)[i % 2]] + rng.choice(['한', '€']) * 352000 + rng.choice(['\n', '\n끝', ''])
    if 14 <= i < 14 + len(BOUNDARY):
        # every special character once as the VERY FIRST character of the input (byte order mark, NUL, line separators, the
        # ends of the planes ...), alone or followed by ordinary text
        ch = chr(BOUNDARY[i - 14])
        kind = 'special_first_char'
        text = ch + rng.choice(['', 'ab\n한\n', ch + 'x', '\n', 'abc'])
    sb = text.encode('utf-8')
    res['hist']['text:' + kind] = 1
    res['hist']['stdin_bytes'] = len(sb)
    planes = {min(ord(ch) >> 16, 3) for ch in text}
    for pl in planes:
        res['hist']['plane:%d' % pl] = 1
    if any(len(l.encode('utf-8')) > 65536 for l in text.split('\n')):
        res['hist']['line>64KiB'] = 1
    if text and not text.endswith('\n'):
        res['hist']['no_final_newline'] = 1
    res['key'] = C.sha(text)
    cands = [p for p in PROGRAMS if len(text) >= p[3]]
    progs = rng.sample(cands, min(len(cands), 2 if len(text) > 2000 else 3))
    if kind == 'mega_line':
        progs = [p for p in PROGRAMS if p[0] == 'cat']
        res['hist']['line>1MiB'] = 1
    elif kind in ('long_multibyte_line', 'long_line', 'aligned_long_line'):
        # (the cushion variants cost three times as much per character: only on the shorter of the long texts)
        pick = rng.choice(['cat', 'cat_exit'] + (['cat_cushion', 'cat_cushion_mul', 'cat_cushion_neg'] if len(text) <= 12000 else []))
        progs = [p for p in PROGRAMS if p[0] == pick]
    for name, prog, fexp, _ in progs:
        want = fexp(text)
        d = os.path.join(_RUN['dir'], name)
        path = os.path.join(d, 'p.hyeong')
        for cfg in ('i0', 'i1', 'i2', 'c0', 'c1', 'c2'):
            if only_cfg is not None and cfg != only_cfg:
                continue
            level = int(cfg[1])
            if cfg[0] == 'i':
                obs = P.run_interp(C.HYEONG, path, level, sb, cpu=400 if only_cfg else 120, wall=1200 if only_cfg else 600)
            else:
                exe = _RUN['exes'].get((name, level))
                if exe is None:
                    continue
                obs = K.run_exe(exe, sb, cpu=400 if only_cfg else 120, wall=1200 if only_cfg else 600)
            res['hist']['runs'] = res['hist'].get('runs', 0) + 1
            res['hist']['config:' + cfg] = res['hist'].get('config:' + cfg, 0) + 1
            sig = '%s:%s:%s' % (name, cfg, res['key'])
            if obs.kind in ('wall', 'cpu'):
                res['items'].append(('i', 'watchdog (%s) %s' % (obs.kind, sig)))
                continue
            problem = None
            want_kind = EXTRA.get(name, {}).get('kind', 'end')
            want_err = EXTRA[name]['err'](text) if name in EXTRA else ''
            if obs.kind != want_kind:
                problem = 'ended with %s (rc=%s), expected %s %s' % (obs.kind, obs.rc, want_kind, C.clip(obs.proc.errs(), 200))
            elif obs.out != want:
                j = 0
                while j < min(len(obs.out), len(want)) and obs.out[j] == want[j]:
                    j += 1
                problem = 'stdout differs from the input text at character %d: expected %r..., observed %r... (lengths %d / %d)' % (
                    j, want[j:j + 12], obs.out[j:j + 12], len(want), len(obs.out))
            elif obs.err != want_err:
                problem = 'stderr: expected %r, observed %s' % (want_err[:20], C.clip(obs.err, 200))
            if problem:
                res['items'].append(('v', sig, 'text did not pass through unchanged', {
                    'program_family': name, 'program': C.clip(render_prog(prog), 300), 'configuration': cfg,
                    'stdin_hex': sb[:600].hex(), 'stdin_len_chars': len(text), 'problem': problem}))
            else:
                res['hist']['chars_compared'] = res['hist'].get('chars_compared', 0) + len(want)
    return res


def main(tier, seed):
    t0 = time.time()
    rep = C.Reporter(PID, tier, seed)
    C.build(['repo', 'core', 'numlib'])
    rundir = C.mktmp(PID)
    _RUN.update(tier=tier, seed=seed, dir=rundir, exes={})
    # ---- validate the program family and the formulas on the reference model first (harness self-check)
    vr = C.rng_for(seed, PID, 'validate')
    for name, prog, fexp, minlen in PROGRAMS:
        os.makedirs(os.path.join(rundir, name))
        with open(os.path.join(rundir, name, 'p.hyeong'), 'w', encoding='utf-8') as f:
            f.write(render_prog(prog))
        for _ in range(12):
            kind, t = gen_text(vr, 'quick')
            t = t[:150]
            if len(t) < minlen:
                continue
            o, e, end = Machine(prog, t, Limits(steps=200000, out_chars=10 ** 7)).run()
            ex = EXTRA.get(name)
            if ex is not None:
                if o != fexp(t) or e != ex['err'](t) or end != ex['kind']:
                    raise C.Inconclusive('copy-program family %s does not validate on the reference model for %r: %r / %r (%s)' % (name, t[:30], o[:40], e[:20], end))
                continue
            if o != fexp(t) or e != '' or end not in ('end', 'exit0'):
                raise C.Inconclusive('copy-program family %s does not validate on the reference model for %r: %r vs %r (%s)' % (name, t[:30], o[:40], fexp(t)[:40], end))
    # ---- compile every program at every level once
    jobs = [(name, lvl) for name, _, _, _ in PROGRAMS for lvl in (0, 1, 2)]
    for name, level, st, what in C.pmap(_build, jobs):
        if st == 'ok':
            _RUN['exes'][(name, level)] = what
        elif st == 'infra':
            rep.inconc('could not build %s level %d: %s' % (name, level, what))
        else:
            rep.violation('build:%s:%d' % (name, level), 'copy program could not be compiled', {'program_family': name, 'level': level, 'status': st, 'detail': C.clip(what, 800)})
    n = 400 if tier == 'quick' else 10000
    results = C.pmap(_case, list(range(n)), chunksize=2, stop_after_bad=30,
                     is_bad=lambda r: any(it[0] == 'v' for it in r['items']))
    hist = {}
    keys = set()
    for r in results:
        rep.merge(r['items'])
        C.add_hist(hist, r['hist'])
        if r['hist'].get('stdin_bytes', 0) > 0:
            keys.add(r['key'])
    cov = {
        'evaluations': hist.get('runs', 0), 'distinct_nontrivial': len(keys),
        'rule': 'valid UTF-8 texts (empty, only newlines, boundary scalar values U+0000/7F/80/7FF/800/D7FF/E000/FFFF/10000/10FFFF, CR LF, no final '
                'newline, random scalar values from all planes, lines of 10^3..10^5 characters, 10^2..10^3 lines) x copy programs (copy exactly k '
                'characters for k in 0..300, copy until end of input, the same exiting through stack 1, reverse k characters through a scratch stack '
                'with push-back on stack 0) x six configurations. Expected stdout is computed from the input text alone. non-trivial = non-empty '
                'input; distinct by text.',
        'samples': [{'program_family': n_, 'program': C.clip(render_prog(p_), 120)} for n_, p_, _, _ in PROGRAMS[:3] + PROGRAMS[8:10] + PROGRAMS[10:11]],
        'texts': len(results), 'executables': len(_RUN['exes']), 'histogram': hist, 'characters_compared': hist.get('chars_compared', 0),
    }
    assumptions = ['expected output is the identity / reversal formula on the input text; the reference interpreter only validates the formulas on short inputs at start-up',
                   'end of input must appear to the program as NaN and only then: copying beyond the end prints the NaN text, copying until NaN stops exactly at the end']
    minimum = {'runs': (hist.get('runs', 0), 1500), 'lines longer than 64 KiB': (hist.get('line>64KiB', 0), 1), 'runs on a line longer than 1 MiB': (hist.get('line>1MiB', 0), 4), 'astral texts': (hist.get('plane:1', 0) + hist.get('plane:3', 0), 50),
               'no final newline': (hist.get('no_final_newline', 0), 40), 'executables': (len(_RUN['exes']), 30)}
    return rep.finish(cov, assumptions, t0, minimum)
