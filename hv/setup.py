"""setup: build everything the checks need from files on disk (offline) and self-check the oracles
against the repository's own expected outputs, so an oracle regression is caught before it can raise
a false alarm."""
import sys
import time
from . import common as C
from . import refparse
from .refinterp import Machine, Limits

VECTORS = [
    # (program, stdin, stdout, stderr) from tests/execute_test.rs and tests/optimize_test.rs
    ("혀어어어어어어엉......핫.", "", "0", ""),
    ("혀어어어어어어어엉........ 핫. 혀엉..... 흑... 하앗... 흐윽... 형.  하앙.혀엉.... 하앙... 흐윽... 항. 항. 형... 하앙. 흐으윽... 형... 흡... 혀엉..하아아앗. 혀엉.. 흡... 흐읍... 형.. 하앗. 하아앙... 형... 하앙... 흐윽...혀어어엉.. 하앙. 항. 형... 하앙. 혀엉.... 하앙. 흑... 항. 형... 흡  하앗.", "", "Hello, world!", ""),
    ("혀어어어어어어엉......핫.. 혀어어어어어어어엉........ 핫. 혀어어어어어어어엉......... 핫..", "", "H", "0Q"),
    ("형 흣........💕 흣.... 형. 하앙... 흣. 흑... 흐읏....!💕", "", "12345678", ""),
    ("형. 흣..", "", "", "1"),
    ("형. 형.. 형. 흑...💘 항.... 하앙... 항...♡ 흑...💘 ! 흣...흑.", "", "4", ""),
    ("형. 흣... 흑 항.", "", "1", ""),
    ("형. 흑 흣.", "", "1", ""),
]


def selfcheck():
    bad = 0
    for text, stdin, out, err in VECTORS:
        prog = refparse.commands_only(refparse.parse(text))
        m = Machine(prog, stdin, Limits(steps=100000))
        o, e, end = m.run()
        if (o, e) != (out, err) or end not in ('end', 'exit0'):
            print('SELFCHECK FAILED for %r: got %r %r %s' % (text[:40], o, e, end))
            bad += 1
    # a_plus_b example with the in-memory reader semantics of the test ("1111 1234" without terminator)
    import os
    p = os.path.join(C.ROOT, 'corpus', 'ex_a_plus_b.hyeong')
    prog = refparse.commands_only(refparse.parse(open(p, encoding='utf-8').read()))
    o, e, end = Machine(prog, "1111 1234", Limits(steps=200000)).run()
    if o != "2345":
        print('SELFCHECK FAILED for a_plus_b: got %r %r %s' % (o, e, end))
        bad += 1
    return bad


def main(tier, seed):
    t0 = time.time()
    secs = C.build(['repo', 'core', 'num', 'numlib'])
    print('built: ' + ', '.join('%s %.1fs' % kv for kv in secs.items()))
    bad = selfcheck()
    print('oracle self-check: %d vectors, %d failed; %.1fs' % (len(VECTORS) + 1, bad, time.time() - t0))
    return 0 if bad == 0 else 2


if __name__ == '__main__':
    sys.exit(main('quick', 0))
