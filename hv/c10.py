"""C10 — optimising a program never performs the program's effects and always finishes.

Bounded restatement monitored here: for each generated program and level 0..2 the child `hv_opt FILE LEVEL`
(parse + optimize::optimize, THEN a marker line, a dump of the result, and an echo of everything still
unread on stdin) is run under `strace -e trace=read,write` with a multi-line sentinel on stdin and a CPU
rlimit.  Refuting events: a read(0) or a write(1|2) before the marker, a missing marker, a damaged
sentinel, a non-zero exit status / signal, or the CPU limit on a program whose speculative prefix keeps
all values small (the model bounds the work by 101*len^2 steps).
"""
import os
import re
import time
from . import common as C
from . import gen
from . import progcheck as P
from .lang import render_prog

PID = 'C10'
_RUN = {}
SENTINEL = ''.join('SENTINEL-%d %s\n' % (i, 'x' * (i % 7)) for i in range(12)) + 'last-line-without-newline'
SYS = re.compile(r'^(?:\[pid +\d+\] |\d+ +)?(read|write)\((\d+), (.*)$')


def _gen(rng, i=None):
    if i == 0:
        # a megabyte of program text: 150 000 commands and a 흑 with 400 000 dots behind a command that reads input
        # first (so level 2 hands over at once).  Costs ~0.2 s per level on the repaired tree; an optimiser whose work
        # is (a count in the program) x (number of commands) instead of the text size needs minutes.
        return 'huge_text', 'RAW:' + '흑 항. ' + '형 ' * 150000 + '흑' + '.' * 400000
    k = rng.random()
    if k < 0.35:
        # select stack 0/1/2 early, then pop: directly, multi-operand, via 흑, inside areas
        s = rng.choice([0, 0, 1, 2])
        pre = [] if rng.random() < 0.4 else [(0, 1, rng.randint(0, 3), None)] * rng.randint(1, 2)
        sel = (5, rng.choice([1, 2]), s, rng.choice([None, None, ('?', None, 2), ('!', 3, None), 2, ('?', ('!', None, 2), 13)]))
        if rng.random() < 0.2:
            sel = (5, 1, s, gen.long_chain_area(rng))
        pops = rng.choice([
            [(1, 1, 3, None)], [(1, 3, 3, None)], [(2, 2, 4, None)], [(3, 1, 3, None)], [(3, 2, 1, None)], [(4, 2, 3, None)],
            [(5, 1, 3, None)], [(5, 2, 0, None)], [(0, 1, 1, ('?', None, 2))], [(0, 1, 2, ('!', 2, ('!', None, 3)))],
            [(0, 1, 1, None), (1, 2, 1, None)]])
        post = gen.gen_random(rng, True, 1, 5)
        if rng.random() < 0.2:
            pops = [(rng.choice([0, 1, 3]), 1, rng.choice([1, 2, 3]), gen.long_chain_area(rng))]
        if rng.random() < 0.25:
            # the I/O stack is selected INSIDE a loop: the loop head popped from an ordinary stack on the first pass and
            # is re-executed, after the backward jump, with stack 0 / 1 / 2 selected
            lab = rng.choice([2, 3, 5, 7])
            head = (rng.choice([1, 1, 2, 3, 5]), 1, 3, rng.choice([lab, lab, ('?', None, lab)]))
            mid = [(0, 1, rng.randint(0, 3), None)] * rng.randint(0, 2)
            close = rng.choice([(0, 1, 3, lab), (0, 3, 1, lab), (0, 1, 3, ('?', None, lab)), (0, 1, 3, ('!', lab, None))])
            return 'io_in_replay', [(0, 1, rng.randint(0, 3), None)] * rng.randint(1, 3) + [head] + mid + [(5, 1, s, None)] + [close] + post
        return 'io_first', pre + [sel] + pops + post
    if k < 0.5:
        # non-terminating loops whose values stay small
        kind = rng.random()
        if kind < 0.25:
            # a command holding both a label heart and ♡ jumps by label once, then selects ♡ (NaN from the emptied
            # stack) forever: it returns to ITSELF without end
            lab = rng.choice([2, 5])
            body = [(0, 1, 1, None)] * rng.randint(1, 3) + [(1, 1, 3, lab), (1, rng.choice([1, 2]), 3, None),
                                                            (5, 1, 3, rng.choice([('?', lab, 13), ('!', lab, 13), ('?', lab, ('?', 13, 13))]))]
        elif kind < 0.4:
            # two labels taken in turn for ever (the sign of the top value flips every round): no single target is taken
            # a hundred times in a row, yet the loop never ends and its values stay small
            la, lb = rng.sample([2, 3, 4, 5, 6], 2)
            body = [(0, 1, rng.choice([5, 7, 2]), None), (1, 1, 3, la)] + [(0, 1, 1, None), (1, 1, 6, None)] * rng.randint(0, 1) + [(1, 1, 3, lb)]
            body += [(3, 1, 3, rng.choice([('?', la, lb), ('?', lb, la), ('!', la, lb)]))]
        elif kind < 0.5:
            body = [(0, 1, 1, 4), (1, 1, rng.choice([5, 1, 2]), None)] + [(0, 1, 1, None), (1, 1, 6, None)] * rng.randint(0, 2) + [(0, 1, 1, 4)]
        else:
            body = [(0, 1, 1, 2), (1, 1, 5, None), (0, 1, 1, 2), (1, 1, 5, None), (0, 1, 0, 13)]
        return 'small_infinite_loop', gen.gen_random(rng, False, 0, 3) + body + gen.gen_random(rng, True, 0, 3)
    if k < 0.58:
        return 'countdown', gen.tmpl_countdown(rng)
    if k < 0.62:
        return 'nested', gen.tmpl_nested(rng)
    if k < 0.68:
        # pre-execution runs into an output-encoding error (optimize must return an error, not act on it)
        pre = gen.print_chars([rng.choice(gen.HOSTILE) for _ in range(rng.randint(0, 3))], 3, rng.choice([1, 2]))
        bad = gen.print_chars([rng.choice(gen.UNENCODABLE)], 3, rng.choice([1, 2]))
        return 'unencodable_in_prefix', pre + bad + gen.gen_random(rng, True, 0, 3)
    if k < 0.75:
        return 'handover', gen.tmpl_handover(rng)
    if k < 0.87:
        # stack 0 as a data stack: own values parked on it, then commands / areas that dig down to (and past) them - the
        # optimiser may use what the program put there, but the first pop that would need a real line must stop it
        return 'stack0_data', gen.tmpl_stack0_data(rng, nan_share=0.15, area_share=0.6)
    name, prog = gen.gen_case(rng, allow_input=True)
    return name, prog


def _parse_strace(text):
    """-> list of (call, fd, rest) in order"""
    ev = []
    for ln in text.split('\n'):
        m = SYS.match(ln)
        if m:
            ev.append((m.group(1), int(m.group(2)), m.group(3)))
    return ev


def _case(i):
    tier, seed, rundir = _RUN['tier'], _RUN['seed'], _RUN['dir']
    rng = C.rng_for(seed, PID, tier, i)
    res = {'i': i, 'items': [], 'hist': {}, 'status': 'ok'}
    name, prog = _gen(rng, i)
    if isinstance(prog, str):
        text = prog[4:]
        from . import refparse
        prog = refparse.commands_only(refparse.parse(text))
    else:
        text = P.render_text(rng, prog)
    if text is None:
        res['status'] = 'reject'
        return res
    res['src'] = name
    n = len(prog)
    if name == 'huge_text':
        return _huge(res, text, name)
    # model of the speculation: does it stay small? where does it stop?
    lim = P.Limits(steps=101 * n * n + 200, bits=600)
    k, cause = P.prefix_model(prog, lim)
    small = cause in ('io', 'budget', 'end')
    res['hist']['model_stop:' + cause] = 1
    if cause == 'io' and k == 0:
        res['hist']['first_command_touches_io'] = 1
    # would the real program read / exit / loop?
    m, ro, re_, rend = P.admit(prog, 'abc\ndef\n', P.Limits(steps=3000))
    res['hist']['program_itself:' + (rend if not rend.startswith('notadmitted') else rend.split(':')[1])] = 1
    if m.st['stdin_reads']:
        res['hist']['program_reads_stdin'] = 1
    res['key'] = C.sha(text)
    path = P.write_program(rundir, 'p%d_%d.hyeong' % (os.getpid(), i), text)
    spath = os.path.join(rundir, 's%d_%d.txt' % (os.getpid(), i))
    try:
        for level in (0, 1, 2):
            sig = 'L%d:%s' % (level, res['key'])
            info = {'program': text, 'level': level, 'source': name, 'model': {'prefix': k, 'stop': cause}}
            cmd = ['strace', '-f', '-e', 'trace=read,write', '-s', '64', '-o', spath, C.HV_OPT, path, str(level)]
            p = C.run_proc(cmd, SENTINEL.encode(), cpu=5, wall=120)
            if p.cpu_killed or (p.rc is not None and p.rc < 0 and not p.wall_timeout and small and False):
                p = C.run_proc(cmd, SENTINEL.encode(), cpu=30, wall=300)
            if p.wall_timeout:
                res['items'].append(('i', 'wall-clock watchdog %s' % sig))
                continue
            try:
                st = open(spath, encoding='utf-8', errors='replace').read()
            except OSError:
                st = ''
            killed_cpu = p.cpu_killed or 'SIGXCPU' in st or '+++ killed by SIGKILL' in st or '+++ killed by SIGXCPU' in st
            if killed_cpu:
                if small:
                    res['items'].append(('v', sig, 'optimising did not finish within the CPU limit although the speculative prefix stays small',
                                         dict(info, cpu_limit_s=30)))
                else:
                    res['hist']['cpu_limit_on_value_blowup_program(not judged)'] = 1
                continue
            out = p.outs()
            ev = _parse_strace(st)
            # position of the marker write in the syscall log
            mark = None
            for j, (call, fd, rest) in enumerate(ev):
                if call == 'write' and fd == 1 and 'OPT-DONE' in rest:
                    mark = j
                    break
            res['hist']['syscalls_observed'] = res['hist'].get('syscalls_observed', 0) + len(ev)
            problems = []
            if 'OPT-DONE' not in out:
                problems.append('completion marker missing (optimize terminated the process?) rc=%s' % p.rc)
            before = ev[:mark] if mark is not None else ev
            rd = [e for e in before if e[0] == 'read' and e[1] == 0]
            wr = [e for e in before if e[0] == 'write' and e[1] in (1, 2)]
            if rd:
                problems.append('read(0) before optimize returned: %s' % C.clip(rd[0][2], 80))
            if wr and mark is not None:
                problems.append('write(%d) before optimize returned: %s' % (wr[0][1], C.clip(wr[0][2], 80)))
            if 'ECHO-BEGIN\n' in out:
                rest = out.split('ECHO-BEGIN\n', 1)[1]
                if rest != SENTINEL:
                    problems.append('sentinel on stdin damaged: %d of %d characters left' % (len(rest), len(SENTINEL)))
                head = out.split('ECHO-BEGIN\n', 1)[0]
                if not head.startswith('OPT-DONE'):
                    problems.append('output before the marker: %s' % C.clip(head.split('OPT-DONE')[0], 120))
            if p.rc != 0 or p.crashed:
                problems.append('exit status %s %s' % (p.rc, C.clip(p.err, 200)))
            if p.err and 'OPT-DONE' in out:
                problems.append('text on stderr: %s' % C.clip(p.err, 200))
            if problems:
                res['items'].append(('v', sig, 'optimising performed an effect of the program', dict(info, problems=problems, stdout_head=C.clip(out, 200))))
            else:
                res['hist']['clean_runs'] = res['hist'].get('clean_runs', 0) + 1
                if 'ok=false' in out:
                    res['hist']['optimize_returned_Err'] = res['hist'].get('optimize_returned_Err', 0) + 1
        res['sample'] = {'program': C.clip(text, 160), 'source': name, 'model_stop': [k, cause]}
        return res
    finally:
        for f in (path, spath):
            try:
                os.unlink(f)
            except OSError:
                pass


def _huge(res, text, name):
    """No strace here (the interest is the amount of work): marker, sentinel and CPU time only."""
    rundir = _RUN['dir']
    path = P.write_program(rundir, 'huge%d.hyeong' % os.getpid(), text)
    res['key'] = C.sha(text)
    res['hist']['huge_text_programs'] = 1
    try:
        for level in (0, 1, 2):
            p = C.run_proc([C.HV_OPT, path, str(level)], SENTINEL.encode(), cpu=30, wall=300)
            if p.wall_timeout:
                res['items'].append(('i', 'wall-clock watchdog on the huge program, level %d' % level))
                continue
            out = p.outs()
            sig = 'HUGE-L%d' % level
            if p.cpu_killed:
                res['items'].append(('v', sig, 'optimising a 1 MB program did not finish within 30 s of CPU time (the repaired tree needs ~0.2 s)',
                                     {'program': '흑 항. + 150000 x 형 + 흑 with 400000 dots', 'level': level}))
            elif 'OPT-DONE' not in out or not out.endswith(SENTINEL) or p.rc != 0:
                res['items'].append(('v', sig, 'optimising the huge program performed an effect', {'level': level, 'rc': p.rc, 'stdout_head': C.clip(out, 200)}))
            else:
                res['hist']['clean_runs'] = res['hist'].get('clean_runs', 0) + 1
        res['sample'] = {'program': 'huge_text (1 MB)', 'source': name, 'model_stop': [1, 'io']}
        return res
    finally:
        try:
            os.unlink(path)
        except OSError:
            pass


def main(tier, seed):
    t0 = time.time()
    rep = C.Reporter(PID, tier, seed)
    C.build(['core'])
    n = 2500 if tier == 'quick' else 120000
    rundir = C.mktmp(PID)
    _RUN.update(tier=tier, seed=seed, dir=rundir)
    results = C.pmap(_case, list(range(n)), chunksize=4, stop_after_bad=25,
                     is_bad=lambda r: any(it[0] == 'v' for it in r['items']))
    hist, srcs = {}, {}
    keys = set()
    samples = []
    ev = 0
    for r in results:
        rep.merge(r['items'])
        if r['status'] != 'ok':
            continue
        ev += 1
        srcs[r['src']] = srcs.get(r['src'], 0) + 1
        C.add_hist(hist, r['hist'])
        h = r['hist']
        if any(k in h for k in ('first_command_touches_io', 'program_reads_stdin', 'model_stop:budget', 'model_stop:io',
                                'program_itself:exit0', 'program_itself:exit1', 'program_itself:step budget')):
            keys.add(r['key'])
        if 'sample' in r and len(samples) < 5 and r['i'] % 97 == 0:
            samples.append(r['sample'])
    if not samples:
        samples = [r['sample'] for r in results if 'sample' in r][:3]
    cov = {
        'evaluations': ev * 3, 'distinct_nontrivial': len(keys),
        'rule': 'programs that select stack 0/1/2 early and pop (directly, in multi-operand commands, via 흑, inside ?/! areas), whose first command '
                'reads or exits, non-terminating loops with small values, count-down loops around the 100-jump budget, hand-over programs and the '
                'general mix; each optimised at levels 0,1,2 in a straced child with a sentinel on stdin. non-trivial = the program itself reads '
                'stdin, exits, loops beyond the budget or stops speculation at an I/O pop; distinct by program text.',
        'samples': samples, 'programs': ev, 'sources': srcs, 'histogram': hist, 'levels': [0, 1, 2],
        'syscall_events_inspected': hist.get('syscalls_observed', 0),
    }
    assumptions = ['strace -e trace=read,write sees every read/write system call of the child', 'CPU time (RLIMIT_CPU 5 s, re-run with 30 s) stands for "work bounded by the program text"; judged only for programs whose first 101*len^2 model steps keep values <= 600 bits',
                   'a wall-clock watchdog firing alone is inconclusive']
    minimum = {'programs': (ev, 300), 'clean runs': (hist.get('clean_runs', 0), 800),
               'first command touches io': (hist.get('first_command_touches_io', 0), 20),
               'speculation stopped by budget': (hist.get('model_stop:budget', 0), 20),
               'programs that never terminate': (hist.get('program_itself:step budget', 0), 30)}
    return rep.finish(cov, assumptions, t0, minimum)
