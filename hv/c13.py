"""C13 — the command-line tool ends in a defined way on any file and any input.

Events: exit status, terminating signal and stderr of `hyeong run -O{0,1,2}` and `hyeong check`
(always --color never) on generated file bytes, stdin bytes and file names.
Oracle: allowed outcomes are status 0, the status the program requested (model-predicted for valid
admitted programs), or status 1 with a diagnostic line `[error] ...` on stderr.  Never 101 / 134 / a
signal / `panicked at`, nor the CPU limit on a case the model predicts to terminate.
"""
import os
import time
from . import common as C
from . import gen, refparse
from . import progcheck as P
from .refinterp import Limits

PID = 'C13'
_RUN = {}


def corrupt(rng, data):
    """valid UTF-8 bytes -> (kind, bytes) possibly invalid"""
    k = rng.random() * 1.5
    b = bytearray(data)
    if k < 0.2 and b:
        for _ in range(rng.randint(1, 3)):
            b[rng.randrange(len(b))] = rng.randrange(256)
        return 'byte_flips', bytes(b)
    if k < 0.35 and len(b) > 2:
        return 'truncated', bytes(b[:rng.randrange(1, len(b))])
    if k < 0.45:
        pos = rng.randrange(len(b) + 1)
        return 'overlong', bytes(b[:pos]) + rng.choice([b'\xc0\xaf', b'\xe0\x80\xaf', b'\xf0\x80\x80\xaf', b'\xc1\xbf']) + bytes(b[pos:])
    if k < 0.55:
        pos = rng.randrange(len(b) + 1)
        return 'lone_continuation', bytes(b[:pos]) + rng.choice([b'\x80', b'\xbf', b'\xff', b'\xfe', b'\xed\xa0\x80', b'\xf4\x90\x80\x80']) + bytes(b[pos:])
    if k < 0.62:
        return 'bom', b'\xef\xbb\xbf' + bytes(b)
    if k < 0.67:
        # UTF-16 with a byte order mark (little / big endian), whole or cut in the middle of a code unit, or with a stray
        # byte appended; UTF-32; a lone BOM
        t = data.decode('utf-8', 'replace')
        enc = rng.choice(['utf-16', 'utf-16', 'utf-16-le', 'utf-16-be', 'utf-32'])
        raw = t.encode(enc)
        if enc == 'utf-16-le':
            raw = b'\xff\xfe' + raw
        elif enc == 'utf-16-be':
            raw = b'\xfe\xff' + raw
        r = rng.random()
        if r < 0.3 and len(raw) > 3:
            raw = raw[:rng.randint(2, len(raw) - 1)]
        elif r < 0.45:
            raw = raw + rng.choice([b'\n', b'\x00', b'a'])
        elif r < 0.5:
            raw = raw[:2] + rng.choice([b'', b'\n', b'\xff'])
        return 'utf16', raw
    return 'valid', bytes(b)


def gen_stdin_bytes(rng):
    """-> (kind, bytes)"""
    base = gen.gen_stdin(rng).encode('utf-8')
    k = rng.random()
    if k < 0.55:
        return 'valid', base
    bad = rng.choice([b'\xff', b'\x80', b'\xc3', b'\xe2\x82', b'\xed\xa0\x80', b'\xf8\x88\x80\x80\x80', b'\xc0\x80'])
    if k < 0.62:
        return 'invalid_first_line', b'a' + bad + b'b\n' + base
    if k < 0.7:
        # the invalid byte sits behind multi-byte text of varying length (byte offsets inside characters)
        pre = ''.join(rng.choice(['가', 'é', '😀', 'a', '한', ' ']) for _ in range(rng.randint(3, 40))).encode('utf-8')
        return 'invalid_after_multibyte_text', rng.choice([b'', b'ok\n']) + pre + bad + rng.choice([b'\n', b'', b'z\n']) + base
    if k < 0.85:
        return 'invalid_later_line', b'ok line\nsecond\n' + b'x' + bad + b'\n' + base
    if k < 0.93:
        return 'invalid_at_eof', base + b'tail' + bad
    return 'invalid_only', bad


def split_valid_prefix(data):
    """bytes -> (text of the leading lines that are valid UTF-8, True if an invalid line follows)"""
    lines = data.split(b'\n')
    parts = [l + b'\n' for l in lines[:-1]] + ([lines[-1]] if lines[-1] else [])
    ok = []
    for p in parts:
        try:
            ok.append(p.decode('utf-8'))
        except UnicodeDecodeError:
            return ''.join(ok), True
    return ''.join(ok), False


def _case(i):
    tier, seed, rundir = _RUN['tier'], _RUN['seed'], _RUN['dir']
    binary = _RUN['bin']
    rng = C.rng_for(seed, PID, tier, i)
    res = {'i': i, 'items': [], 'hist': {}, 'status': 'ok'}
    wd = os.path.join(rundir, 'w%d_%d' % (os.getpid(), i))
    os.makedirs(wd, exist_ok=True)
    try:
        # ---- file content
        k = rng.random()
        if k < 0.06:
            fkind, data = 'empty', b''
        elif k < 0.14:
            fkind, data = 'noise_only', ''.join(rng.choice('abc 가나다.?!♥\n어엉') for _ in range(rng.randint(1, 60))).encode('utf-8')
        elif k < 0.17:
            # thousands of commands: listing indices, line numbers and columns with many digits
            ncmd = rng.choice([9, 10, 11, 99, 100, 101, 1200, 5000])
            sepc = rng.choice(['\n', ' ', '\n', '   '])
            fkind, data = 'many_commands', (sepc.join(rng.choice(['형', '형.', '혀엉', '형..']) for _ in range(ncmd)) + rng.choice(['', '\n', ' 항.'])).encode('utf-8')
        elif k < 0.185:
            # commands whose locations differ wildly in width (line 1 col 0 vs line 10^5.. col 10^4..)
            nl = rng.choice([9, 99, 999, 99999, 300000])
            nc = rng.choice([0, 9, 99, 12345, 200000])
            fkind, data = 'far_locations', ('형.' + '\n' * nl + ' ' * nc + '형..' + rng.choice(['', '\n항.', ' 항.'])).encode('utf-8')
        elif k < 0.2:
            nops = rng.choice([100, 1000, 4096])
            fkind, data = 'deep_area', ('형' + ''.join(rng.choice('?!') + rng.choice(['', '♥', '♡']) for _ in range(nops)) + ' 항.').encode('utf-8')
        else:
            kk = rng.random()
            if kk < 0.12:
                name, prog = 'tmpl:hostile_output', gen.tmpl_hostile_output(rng)
                if rng.random() < 0.5:
                    prog = prog + gen.print_chars([rng.choice(gen.UNENCODABLE)], 3, rng.choice([1, 2]))
            elif kk < 0.3:
                name, prog = 'reads', rng.choice([gen.tmpl_stack0, gen.tmpl_handover])(rng)
                prog = prog + [(5, 1, 0, None)] + [(1, rng.choice([1, 2, 3]), 1, None)] * rng.randint(1, 4)
            elif kk < 0.5:
                # stack 0 as a data stack while it is the input buffer: own values, then commands / areas that pop more of them
                # than there are (the optimiser and the interpreter must agree on where real input starts)
                name, prog = 'tmpl:stack0_data', gen.tmpl_stack0_data(rng, area_share=0.7)
            else:
                name, prog = gen.gen_case(rng, allow_input=True)
            text = P.render_text(rng, prog) or '형.'
            fkind, data = corrupt(rng, text.encode('utf-8'))
        # ---- file name
        nk = rng.random()
        if nk < 0.12:
            # long and / or multi-byte file names (listings and diagnostics print them, possibly shortened or padded)
            stem = rng.choice(['안녕하세요_세계_프로그램_예제', '프로그램' * rng.randint(3, 12), 'a' * rng.choice([36, 37, 38, 39, 40, 41, 100, 200]),
                               '😀' * rng.randint(5, 20), 'name with spaces and [brackets] %d' % rng.randint(0, 9), 'é' * rng.randint(15, 60),
                               'x' * rng.randint(30, 40) + '한글' * rng.randint(1, 5)])
            fname, nkind = stem + '.hyeong', 'hyeong'
            res['hist']['name:long_or_multibyte'] = 1
        elif nk < 0.8:
            fname, nkind = 'x.hyeong', 'hyeong'
        elif nk < 0.86:
            fname, nkind = 'x.txt', 'wrong_extension'
        elif nk < 0.9:
            fname, nkind = 'noext', 'no_extension'
        elif nk < 0.95:
            fname, nkind = 'missing.hyeong', 'missing'
        else:
            fname, nkind = 'd.hyeong', 'directory'
        path = os.path.join(wd, fname)
        if nkind == 'directory':
            os.makedirs(path, exist_ok=True)
        elif nkind != 'missing':
            with open(path, 'wb') as f:
                f.write(data)
        skind, sdata = gen_stdin_bytes(rng)
        res['hist']['file:' + fkind] = 1
        res['hist']['name:' + nkind] = 1
        res['hist']['stdin:' + skind] = 1
        # ---- prediction
        try:
            text = data.decode('utf-8')
            valid = True
        except UnicodeDecodeError:
            text, valid = None, False
        loadable = valid and nkind == 'hyeong'
        predicted = None          # None = not predictable (only the allowed-outcome set is judged)
        admitted = False
        ref_err = ''
        if loadable:
            prog = refparse.commands_only(refparse.parse(text))
            stext, bad_follows = split_valid_prefix(sdata)
            m, ro, re_, rend = P.admit(prog, stext, Limits(steps=12000))
            if not rend.startswith('notadmitted'):
                admitted = True
                ref_err = re_
                if bad_follows and m.st['eof_reads'] > 0:
                    predicted = 'stdin_error'
                elif rend in ('end', 'exit0'):
                    predicted = 'rc0'
                elif rend == 'exit1':
                    predicted = 'exit1'
                else:
                    predicted = 'encerr'
        else:
            predicted = 'load_error'
        res['hist']['predicted:' + str(predicted if (loadable is False or admitted) else 'not_admitted(check only)')] = 1
        info = {'file_kind': fkind, 'name_kind': nkind, 'stdin_kind': skind, 'global_flags': None, 'file_bytes_hex': data[:400].hex(),
                'stdin_bytes_hex': sdata[:200].hex(), 'file_name': repr(fname.encode('utf-8', 'surrogateescape'))}
        key = C.sha(data + b'\0' + sdata + fname.encode('utf-8', 'surrogateescape'))
        res['key'] = key
        verbose = ['--verbose'] if rng.random() < 0.35 else []
        info['global_flags'] = verbose
        if verbose:
            res['hist']['flag:--verbose'] = 1
        cmds = [('check', [binary] + verbose + ['check', '--color', 'never', path])]
        if (not loadable) or admitted:
            for lvl in (0, 1, 2):
                cmds.append(('run-O%d' % lvl, [binary] + verbose + ['run', '-O%d' % lvl, '--color', 'never', path]))
        for cname, cmd in cmds:
            p = C.run_proc(cmd, sdata, cpu=10)
            if p.cpu_killed:
                p = C.run_proc(cmd, sdata, cpu=30)
            res['hist']['invocations'] = res['hist'].get('invocations', 0) + 1
            sig = '%s:%s' % (cname, key)
            err = p.errs()
            if p.wall_timeout:
                res['items'].append(('i', 'wall-clock watchdog ' + sig))
                continue
            problem = None
            if p.crashed:
                problem = 'ended by panic/abort/signal: rc=%s %s' % (p.rc, C.clip(err[-300:], 300))
            elif p.cpu_killed:
                problem = 'did not finish within the CPU limit although the model predicts termination'
            elif p.rc not in (0, 1):
                problem = 'exit status %s is neither 0, 1' % p.rc
            elif p.rc == 1:
                want = predicted if cname != 'check' else ('load_error' if not loadable else 'rc0')
                own = ref_err if (cname != 'check' and admitted) else ''
                diag = P.split_diag(err, own)[1].strip()
                if want == 'exit1' and cname != 'check':
                    if diag:
                        problem = 'program requested exit 1 but a diagnostic was printed: %s' % C.clip(err, 200)
                elif not diag:
                    problem = 'status 1 without any diagnostic text on stderr'
                if problem is None and want == 'rc0':
                    problem = 'status 1 where the model predicts status 0: %s' % C.clip(err, 200)
            else:
                want = predicted if cname != 'check' else ('load_error' if not loadable else 'rc0')
                if want in ('exit1', 'encerr', 'stdin_error', 'load_error'):
                    problem = 'status 0 where the model predicts %s' % want
            if problem:
                res['items'].append(('v', sig, '`hyeong %s` ended in an undefined way' % cname.split('-')[0],
                                     dict(info, command=cname, problem=problem, predicted=predicted)))
            else:
                res['hist']['outcome:%s:rc%s' % (cname.split('-')[0], p.rc)] = res['hist'].get('outcome:%s:rc%s' % (cname.split('-')[0], p.rc), 0) + 1
        return res
    finally:
        import shutil
        shutil.rmtree(wd, ignore_errors=True)


def main(tier, seed):
    t0 = time.time()
    rep = C.Reporter(PID, tier, seed)
    C.build(['repo'])
    n = 6000 if tier == 'quick' else 80000
    rundir = C.mktmp(PID)
    _RUN.update(tier=tier, seed=seed, dir=rundir, bin=C.HYEONG)
    results = C.pmap(_case, list(range(n)), chunksize=4, stop_after_bad=40,
                     is_bad=lambda r: any(it[0] == 'v' for it in r['items']))
    if tier == 'thorough':
        C.build(['repo_release'])
        _RUN.update(tier='thorough-release', bin=C.HYEONG_REL)
        results += C.pmap(_case, list(range(2000)), chunksize=4, stop_after_bad=40,
                          is_bad=lambda r: any(it[0] == 'v' for it in r['items']))
    hist = {}
    keys = set()
    for r in results:
        rep.merge(r['items'])
        C.add_hist(hist, r['hist'])
        h = r['hist']
        if not (h.get('file:valid') and h.get('name:hyeong') and h.get('stdin:valid')) or h.get('predicted:encerr') or h.get('predicted:exit1'):
            keys.add(r.get('key', r['i']))
    samples = [{'file_kind': k.split(':', 1)[1], 'count': v} for k, v in sorted(hist.items()) if k.startswith('file:')][:8]
    cov = {
        'evaluations': hist.get('invocations', 0), 'distinct_nontrivial': len(keys),
        'rule': 'file bytes: valid generated programs, the same with byte flips / truncation inside multi-byte sequences / overlong encodings / lone '
                'continuation bytes / surrogates / BOM / UTF-16, empty, only noise, area chains up to 4096; stdin bytes: valid texts and invalid UTF-8 on '
                'the first line, a later line, at EOF, alone; file names x.hyeong, x.txt, no extension, missing, a directory named d.hyeong; each case '
                'runs `check` and (if the model predicts termination or the file cannot load) `run -O0/-O1/-O2`. non-trivial = anything but a valid '
                'program with valid stdin ending with status 0; distinct by file bytes + stdin bytes + name.',
        'samples': samples, 'cases': len(results), 'histogram': hist,
    }
    assumptions = ['for valid admitted programs the reference interpreter predicts the class (status 0, requested 1, encoding error, invalid input on a line the program reads)',
                   'programs the model cannot finish are only `check`ed', 'a wall-clock watchdog alone is inconclusive']
    minimum = {'long or multi-byte file names': (hist.get('name:long_or_multibyte', 0), 100), 'invocations': (hist.get('invocations', 0), 1500), 'invalid utf-8 files': (sum(v for k, v in hist.items() if k in ('file:byte_flips', 'file:truncated', 'file:overlong', 'file:lone_continuation', 'file:utf16')), 100),
               'stdin errors predicted': (hist.get('predicted:stdin_error', 0), 10), 'encoding errors predicted': (hist.get('predicted:encerr', 0), 5),
               'load errors': (hist.get('predicted:load_error', 0), 100)}
    return rep.finish(cov, assumptions, t0, minimum)
