"""Shared machinery for program-level monitors: admission through the reference interpreter,
running the real binary, classifying endings, comparing observables."""
import os
from . import common as C
from . import gen, refparse
from .lang import render_cmd
from .refinterp import Machine, Limits, EXIT_STATUS

ENC_MARK = 'utf-8 encoding error'


def render_text(rng, prog):
    """Program text with harmless layout variation; returns None if it does not read back identically
    through the reference parser (generator self-check, never a verdict)."""
    k = rng.random()
    sep = ' ' if k < 0.6 else ('\n' if k < 0.8 else ('' if k < 0.9 else '  \n\t'))
    text = sep.join(render_cmd(c) for c in prog)
    if rng.random() < 0.3:
        text += '\n'
    if refparse.commands_only(refparse.parse(text)) != list(prog):
        return None
    return text


def admit(prog, stdin_text, limits):
    """Run the reference interpreter. -> (machine, out, err, end); end startswith 'notadmitted' if the
    case leaves the claimed/affordable domain."""
    m = Machine(prog, stdin_text, limits)
    o, e, end = m.run()
    return m, o, e, end


def features(m, end):
    """Which mechanisms this execution exercised (from the reference run)."""
    st = m.st
    f = set()
    if st['jumps']:
        f.add('jump')
    if st['heart_returns']:
        f.add('heart_return')
    if st['heart_after_heart']:
        f.add('heart_after_heart')
    if st['heart_return_to_self']:
        f.add('heart_return_to_self')
    if st['forward_jumps']:
        f.add('forward_jump')
    if st['pops_of_own_values_from_stack0']:
        f.add('stack0_used_as_data')
    if st['nan_onto_stack0_after_read']:
        f.add('nan_onto_stack0_after_read')
    if st['jump_from_first_command']:
        f.add('jump_from_first_command')
    if st['heart_return_to_first_command']:
        f.add('heart_return_to_first_command')
    if st['two_labels_one_command']:
        f.add('two_labels_one_command')
    if st['jump_to_multi_label_command_after_read']:
        f.add('jump_to_multi_label_command_after_read')
    if st['jump_back_over_first_read']:
        f.add('jump_into_prefix_after_read')
    if st['stdin_reads']:
        f.add('stdin')
    if st['eof_reads']:
        f.add('eof')
    if end in ('exit0', 'exit1'):
        f.add(end)
    if end == 'encerr':
        f.add('encerr')
    if st['cmp_frac']:
        f.add('cmp_frac')
    if st['cmp_nan']:
        f.add('cmp_nan')
    if st['cmp_nonzero_count']:
        f.add('cmp_nonzero_count')
    if st['print_frac']:
        f.add('print_frac')
    if st['print_nan']:
        f.add('print_nan')
    if st['multi_operand']:
        f.add('multi_operand')
    if st['push_stack0']:
        f.add('push_stack0')
    if st['jumps'] > 100:
        f.add('jumps>100')
    if st['nan_dropped_on_empty']:
        f.add('nan_dropped')
    return f


def write_program(d, name, text):
    p = os.path.join(d, name)
    with open(p, 'w', encoding='utf-8') as f:
        f.write(text)
    return p


class RunObs:
    """Observables of one `hyeong run` / compiled executable execution."""
    __slots__ = ('kind', 'out', 'err', 'rc', 'proc')

    def __init__(self, kind, out, err, rc, proc):
        self.kind, self.out, self.err, self.rc, self.proc = kind, out, err, rc, proc

    def brief(self):
        return {'kind': self.kind, 'rc': self.rc, 'stdout': C.clip(self.out, 400), 'stderr': C.clip(self.err, 400)}


def common_prefix(a, b):
    n = min(len(a), len(b))
    i = 0
    while i < n and a[i] == b[i]:
        i += 1
    return a[:i]


def split_diag(err, ref_err):
    """stderr of a run that ended with a tool diagnostic -> (program's own text, diagnostic text).
    The wording of diagnostics is not fixed by any property: the program part is what coincides with the
    stderr text the model predicts, the rest is the diagnostic."""
    if '[error]' in err:
        i = err.index('[error]')
        return err[:i], err[i:]
    p = common_prefix(err, ref_err)
    return p, err[len(p):]


def run_interp(binary, path, level, stdin_bytes, cpu=10, wall=120, hint=None):
    """-> RunObs with kind in: end, exit1, encerr, crash, cpu, wall, noheader, other.
    ('end' covers normal end and a requested exit 0: indistinguishable at the process boundary.)"""
    p = C.run_proc([binary, 'run', '-O%d' % level, '--color', 'never', path], stdin_bytes, cpu=cpu, wall=wall)
    found, body = C.run_header_split(p.out)
    out = body.decode('utf-8', 'replace')
    err = p.errs()
    if p.wall_timeout:
        kind = 'wall'
    elif p.cpu_killed:
        kind = 'cpu'
    elif p.crashed:
        kind = 'crash'
    elif p.rc == 1 and (ENC_MARK in err or (hint is not None and hint[1] == 'encerr' and split_diag(err, hint[0])[1].strip())):
        # at -O2 the error may surface while optimising, before the header is printed.  `hint` = (stderr text,
        # ending) predicted by the model: a status-1 run with text beyond the program's own stderr is a diagnosed
        # error even if the diagnostic is worded differently
        kind = 'encerr'
    elif not found:
        kind = 'noheader'
    elif p.rc == 0:
        kind = 'end'
    elif p.rc == 1:
        kind = 'exit1'
    else:
        kind = 'other'
    return RunObs(kind, out, err, p.rc, p)


def expect_from_ref(end):
    """Reference ending -> process-level kind."""
    return {'end': 'end', 'exit0': 'end', 'exit1': 'exit1', 'encerr': 'encerr'}[end]


def compare_to_ref(obs, ro, re_, rend, lenient_encerr):
    """Compare a real run with the reference (ro, re_, rend). -> None if it agrees, else a short reason.
    lenient_encerr: text before an encoding error may be withheld (optimised runs, compiled programs)."""
    want = expect_from_ref(rend)
    if obs.kind in ('wall',):
        return 'INCONCLUSIVE wall-clock watchdog'
    if obs.kind != want:
        return 'ending: expected %s, observed %s (rc=%s)' % (want, obs.kind, obs.rc)
    if want == 'encerr':
        err_prog, diag = split_diag(obs.err, re_)
        if not diag.strip():
            return 'encoding error expected: status 1 without any diagnostic text'
        if lenient_encerr:
            if not ro.startswith(obs.out):
                return 'stdout before the encoding error is not a prefix of the expected text'
            if not re_.startswith(err_prog):
                return 'stderr before the encoding error is not a prefix of the expected text'
        else:
            if obs.out != ro:
                return 'stdout before the encoding error differs'
            if err_prog != re_:
                return 'stderr before the encoding error differs'
        return None
    if obs.out != ro:
        return 'stdout differs'
    if obs.err != re_:
        return 'stderr differs'
    return None


def compare_runs(base, other, lenient_encerr=True, ref_err=''):
    """Compare an optimised/compiled run with the unoptimised run of the same program (both RunObs)."""
    if base.kind in ('wall', 'cpu', 'crash', 'noheader', 'other') or other.kind == 'wall':
        return 'INCONCLUSIVE base=%s other=%s' % (base.kind, other.kind)
    if other.kind != base.kind:
        return 'ending: unoptimised %s (rc=%s), this run %s (rc=%s)' % (base.kind, base.rc, other.kind, other.rc)
    if base.kind == 'encerr':
        bp = split_diag(base.err, ref_err)[0]
        op = split_diag(other.err, ref_err)[0]
        if lenient_encerr:
            if not base.out.startswith(other.out):
                return 'stdout before the encoding error is not a prefix of the unoptimised text'
            if not bp.startswith(op):
                return 'stderr before the encoding error is not a prefix of the unoptimised text'
            return None
        if base.out != other.out or bp != op:
            return 'output before the encoding error differs'
        return None
    if base.out != other.out:
        return 'stdout differs'
    if base.err != other.err:
        return 'stderr differs'
    return None


def default_limits(tier, loopy=False):
    if tier == 'quick':
        return Limits(steps=6000 if loopy else 3000)
    return Limits(steps=20000)


# ------------------------------------------------------------------ model of level-2 pre-execution
class _Spec(Exception):
    pass


class _SpecMachine(Machine):
    def pop(self, i):
        if i <= 2:
            raise _Spec()
        return Machine.pop(self, i)


def prefix_model(prog, limits=None):
    """Where would level-2 pre-execution stop?  Used ONLY to classify workloads for the evidence
    histogram (never for a verdict). -> (commands_pre_executed, cause) with cause in
    io (pop from stack 0-2), budget (>= 100 jumps in one top-level command), end, other."""
    k, cause, _ = prefix_model_info(prog, limits)
    return k, cause


def prefix_model_info(prog, limits=None):
    """prefix_model plus what the ABANDONED speculation of the first residual command did before it was given up:
    info = {jumps, latest_changed, labels_added, heart_return_taken} (classification of workloads only)."""
    m = _SpecMachine(prog, '', limits or Limits(steps=50000))
    k = 0
    n = len(prog)
    snap = {'jumps': 0, 'latest': None, 'labels': 0, 'returns': 0}
    first = [None]

    def info():
        return {'jumps': m.st['jumps'] - snap['jumps'], 'latest_changed': m.latest != snap['latest'],
                'labels_added': len(m.labels) - snap['labels'], 'heart_return_taken': m.st['heart_returns'] - snap['returns'],
                'first_step_return': first[0]}
    try:
        while k < n:
            snap = {'jumps': m.st['jumps'], 'latest': m.latest, 'labels': len(m.labels), 'returns': m.st['heart_returns']}
            loc = k
            first[0] = None
            while loc <= k:
                if m.st['jumps'] - snap['jumps'] >= 100:
                    return k, 'budget', info()
                m.steps += 1
                if m.steps > m.lim.steps:
                    return k, 'other', info()
                r0 = m.st['heart_returns']
                loc = m.step(loc)
                if first[0] is None:
                    first[0] = m.st['heart_returns'] > r0
            k += 1
    except _Spec:
        return k, 'io', info()
    except Exception:
        return k, 'other', info()
    return k, 'end', {'jumps': 0, 'latest_changed': False, 'labels_added': 0, 'heart_return_taken': 0, 'first_step_return': False}
