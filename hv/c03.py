"""C03 — a compiled program behaves exactly like the interpreted program.

Events: text of compile::build_source (via hv_emit, wired as src/app/build.rs) -> rustc exit status and
diagnostics -> executable's stdout, stderr, exit status on piped stdin, for levels 0, 1, 2.
Oracle: rustc must accept the text; the executable's observables must equal those of `hyeong run -O0`
on the same file and stdin (the statement of the property); an interpreter encoding error corresponds
to an abnormal stop (panic) of the executable.  The reference interpreter admits cases and classifies
the level-2 hand-over shapes each case exercised.
"""
import os
import time
from . import common as C
from . import gen
from . import progcheck as P
from . import compilecheck as K

PID = 'C03'
_RUN = {}


# 24 slots (big hand-over twice, label table / two labels three times, forward_jump = -3): 4 hand-over, dispatch, hostile output, count-down, 2 pending return, 2 label table / two labels, 2 self return,
# big hand-over, NaN variants, tiny, general mix (0.87), 2 stack 0 as data (-1), 2 zoo (-2)
QUOTA = [0.05, -1, 0.15, -2, 0.25, 0.29, 0.35, 0.44, 0.5, 0.58, -1, 0.62, 0.7, -2, 0.75, 0.82, 0.9, 0.95, 0.99, 0.87, 0.84, 0.91, -3, 0.72]


def _gen(rng, i=None):
    # a fixed schedule by case index (not a coin per case) so that every run contains every shape
    k = rng.random() if i is None else QUOTA[i % len(QUOTA)]
    if k == -3:
        # label hearts in every area position (also under `!` in the left operand of `?`), forward jumps to registered labels
        name, prog = 'tmpl:forward_jump', gen.tmpl_forward_jump(rng)
        if rng.random() < 0.5:
            prog = prog + gen.read_fragment(rng) + gen.print_chars([65], 3, 1)
    elif k == -2:
        # many different command forms per compilation (each C03 case costs three rustc runs)
        name, prog = 'tmpl:zoo', gen.tmpl_zoo(rng)
    elif k == -1:
        # the compiled program has its own implementation of stack 0 / input lines
        name, prog = 'tmpl:stack0_data', gen.tmpl_stack0_data(rng, nan_share=0.6)
    elif k < 0.3:
        name, prog = 'tmpl:handover', gen.tmpl_handover(rng)
    elif k < 0.4:
        name, prog = 'tmpl:dispatch', gen.tmpl_dispatch(rng, allow_input=rng.random() < 0.7)
    elif k < 0.48:
        name, prog = 'tmpl:hostile_output', gen.tmpl_hostile_output(rng, banner_share=0.6)
        if rng.random() < 0.5:
            prog = prog + gen.read_fragment(rng) + gen.print_chars([rng.choice(gen.HOSTILE)], 3, 1)
    elif k < 0.55:
        name, prog = 'tmpl:countdown', gen.tmpl_countdown(rng)
    elif k < 0.67:
        name, prog = 'tmpl:pending_return', gen.tmpl_pending_return(rng)
    elif k < 0.8:
        if i is not None and (i // len(QUOTA)) % 2:
            name, prog = 'tmpl:two_labels', gen.tmpl_two_labels(rng)
        else:
            name, prog = 'tmpl:label_table', gen.tmpl_label_table(rng)
    elif k < 0.86:
        name, prog = 'tmpl:self_return', gen.tmpl_self_return(rng)
    elif k > 0.985:
        name, prog = 'tiny', gen.gen_tiny(rng, True)
    elif k > 0.94:
        name, prog = 'tmpl:nan_variants', gen.tmpl_nan_variants(rng, True)
    elif k > 0.89:
        name, prog = 'tmpl:big_handover', gen.tmpl_big_handover(rng)
    else:
        name, prog = gen.gen_case(rng, allow_input=True)
    if rng.random() < 0.35 and not name.startswith('tmpl:dispatch') and name != 'tiny':
        prog = gen.epilogue(rng, prog)
    return name, prog


def _mega_case(i, rng, res):
    """One input line longer than 1 MiB (4-byte characters, shifted so that one of them lies across byte 2^20 of the
    line) copied by the until-end-of-input program: compiled level 0 and 2 against `hyeong run -O0`.  Far beyond what
    the reference model is asked to admit; the verdict does not need it."""
    from . import c14
    from .lang import render_prog
    rundir = _RUN['dir']
    prog = c14.prog_cat(False)
    text = render_prog(prog)
    stdin = 'xyz'[:rng.choice([1, 2, 3])] + '\U0001f600' * 263000 + rng.choice(['\n', '\n끝'])
    res['src'] = 'mega_input'
    res['key'] = C.sha(text + '\0' + stdin)
    res['feat'] = ['stdin', 'input_line_longer_than_1MiB']
    wd = os.path.join(rundir, 'w%d_%d' % (os.getpid(), i))
    os.makedirs(wd, exist_ok=True)
    path = P.write_program(wd, 'p.hyeong', text)
    sb = stdin.encode('utf-8')
    info = {'program': text, 'stdin': 'a line of %d bytes' % len(sb), 'source': 'mega_input'}
    try:
        base = P.run_interp(C.HYEONG, path, 0, sb, cpu=600, wall=2400, hint=('', 'end'))
        if base.kind != 'end':
            res['items'].append(('i', 'unoptimised interpreter run on the 1 MiB line unusable (%s)' % base.kind))
            res['status'] = 'inconclusive'
            return res
        for level in (0, 2):
            st, what, src = K.build_exe(wd, path, level, _RUN.get('numlib'))
            res['hist']['build:%d:%s' % (level, st)] = 1
            if st != 'ok':
                res['items'].append(('i', 'level %d build for the 1 MiB case: %s' % (level, st)))
                continue
            obs = K.run_exe(what, sb, cpu=600, wall=2400)
            d = K.compare_compiled(base, obs, '')
            if d is None:
                continue
            if d.startswith('INCONCLUSIVE'):
                res['items'].append(('i', 'level %d 1 MiB case %s' % (level, d)))
                continue
            res['items'].append(('v', 'L%d:mega:%s' % (level, res['key']), 'compiled program differs from the interpreted program',
                                 dict(info, level=level, difference=d, compiled=obs.brief())))
        return res
    finally:
        K.rm(wd)


def _case(i):
    tier, seed, rundir = _RUN['tier'], _RUN['seed'], _RUN['dir']
    rng = C.rng_for(seed, PID, tier, i)
    res = {'i': i, 'items': [], 'feat': [], 'status': 'ok', 'hist': {}}
    if i == 0:
        return _mega_case(i, rng, res)
    name, prog = _gen(rng, i)
    stdin = gen.gen_stdin(rng)
    if name == 'tmpl:stack0_data' and rng.random() < 0.8:
        stdin = rng.choice(gen.MULTILINE)
    res['src'] = name
    text = P.render_text(rng, prog)
    if text is None:
        res['status'] = 'reject:render'
        return res
    lim = P.default_limits(tier, loopy=True)
    m, ro, re_, rend = P.admit(prog, stdin, lim)
    if rend.startswith('notadmitted'):
        res['status'] = 'reject:' + rend.split(':', 1)[1]
        return res
    feat = P.features(m, rend)
    k, cause = P.prefix_model(prog)
    nareas = sum(1 for c in prog if c[3] is not None)
    res['hist']['prestop:' + cause] = 1
    res['hist']['area_commands:%s' % ('0' if nareas == 0 else '1-3' if nareas <= 3 else '4-15' if nareas <= 15 else '16-63' if nareas <= 63 else '64+')] = 1
    if cause != 'end':
        feat.add('partial_prefix')
        if k == 0:
            feat.add('empty_prefix')
        elif prog[k - 1][3] is not None:
            feat.add('prefix_ends_with_area_command')
        elif k >= 2 and prog[k - 2][3] is None:
            feat.add('prefix_ends_with_2_arealess')
        # state left behind at the hand-over
        pm = P._SpecMachine(prog, '', P.Limits(steps=50000))
        try:
            kk = 0
            while kk < k:
                loc = kk
                while loc <= kk:
                    loc = pm.step(loc)
                kk += 1
            if pm.latest is not None:
                feat.add('pending_heart_target')
            if pm.labels:
                feat.add('labels_registered_in_prefix')
            vals = [v for s in pm.stacks.values() for v in s]
            if any(v is None for v in vals):
                feat.add('nan_at_handover')
            if any(v is not None and v.denominator != 1 for v in vals):
                feat.add('fraction_at_handover')
            if any(v is not None and v < 0 for v in vals):
                feat.add('negative_at_handover')
            if any(v is not None and (abs(v.numerator) >= 10 ** 10 or v.denominator >= 10 ** 10) for v in vals):
                feat.add('big_value_at_handover')
            if pm.stacks.get(0):
                feat.add('stack0_nonempty_at_handover')
            if any(ch in ''.join(pm.out + pm.err) for ch in '{}"\\'):
                feat.add('hostile_chars_in_precomputed_output')
        except Exception:
            pass
    res['feat'] = sorted(feat)
    res['key'] = C.sha(text + '\0' + stdin)
    wd = os.path.join(rundir, 'w%d_%d' % (os.getpid(), i))
    os.makedirs(wd, exist_ok=True)
    path = P.write_program(wd, 'p.hyeong', text)
    sb = stdin.encode('utf-8')
    info = {'program': text, 'stdin': stdin, 'source': name, 'features': sorted(feat),
            'reference': {'end': rend, 'stdout': C.clip(ro, 300), 'stderr': C.clip(re_, 300)}, 'prestop': [k, cause]}
    try:
        base = P.run_interp(C.HYEONG, path, 0, sb, hint=(re_, rend))
        if base.kind in ('wall', 'cpu', 'crash', 'noheader', 'other'):
            res['items'].append(('i', 'unoptimised interpreter run unusable (%s) %s' % (base.kind, res['key'])))
            res['status'] = 'inconclusive'
            return res
        if P.compare_to_ref(base, ro, re_, rend, lenient_encerr=False) is not None:
            res['hist']['interpreter_differs_from_reference(see C01)'] = 1
        info['interpreter'] = base.brief()
        for level in (0, 1, 2):
            st, what, src = K.build_exe(wd, path, level, _RUN.get('numlib'))
            res['hist']['build:%d:%s' % (level, st)] = 1
            sig = 'L%d:%s' % (level, res['key'])
            if st == 'infra':
                res['items'].append(('i', 'level %d %s: %s' % (level, res['key'], what)))
                continue
            if st == 'optimize_error':
                if base.kind != 'encerr':
                    res['items'].append(('v', sig, 'compilation refused with an error although the interpreter runs the program',
                                         dict(info, level=level, message=C.clip(what, 400))))
                continue
            if st in ('emit_crash', 'emit_cpu'):
                res['items'].append(('v', sig, 'the compiler crashed or did not finish', dict(info, level=level, detail=what)))
                continue
            if st == 'rustc_rejected':
                first = [ln for ln in what.split('\n') if ln.startswith('error')][:1]
                res['items'].append(('v', sig, 'rustc rejects the emitted source', dict(
                    info, level=level, rustc=C.clip(what, 1200), first_diagnostic=first)))
                continue
            obs = K.run_exe(what, sb)
            if obs.kind == 'cpu':
                obs = K.run_exe(what, sb, cpu=30)
            d = K.compare_compiled(base, obs, re_)
            if d is None:
                continue
            if d.startswith('INCONCLUSIVE'):
                res['items'].append(('i', 'level %d %s %s' % (level, res['key'], d)))
                continue
            res['items'].append(('v', sig, 'compiled program differs from the interpreted program', dict(
                info, level=level, difference=d, compiled=obs.brief(),
                emitted_source_head=C.clip('\n'.join(l for l in src.split('\n') if l.startswith('    ') and ('state =' in l or 'last =' in l or 'cur =' in l or 'point.insert' in l or 'print!' in l))[:1500], 1500))))
        res['sample'] = {'program': C.clip(text, 160), 'stdin': C.clip(stdin, 40), 'end': rend, 'features': sorted(feat), 'prestop': [k, cause]}
        return res
    finally:
        K.rm(wd)


def main(tier, seed):
    t0 = time.time()
    rep = C.Reporter(PID, tier, seed)
    C.build(['repo', 'core', 'numlib'])
    C.sweep_stale_tmp()
    n = 320 if tier == 'quick' else 12000
    rundir = C.mktmp(PID)
    _RUN.update(tier=tier, seed=seed, dir=rundir)
    results = C.pmap(_case, list(range(n)), chunksize=2, stop_after_bad=40,
                     is_bad=lambda r: any(it[0] == 'v' for it in r['items']))
    release_cases = 0
    if tier == 'thorough':
        # the real `hyeong build` compiles with cargo --release: repeat a slice optimised, against the release library
        C.build(['numlib_release'])
        _RUN.update(tier='thorough-release', numlib=C.NUMLIB_REL)
        extra = C.pmap(_case, list(range(600)), chunksize=2, stop_after_bad=40,
                       is_bad=lambda r: any(it[0] == 'v' for it in r['items']))
        release_cases = sum(1 for r in extra if not r['status'].startswith('reject'))
        results += extra
    hist, srcs, featc, rejects = {}, {}, {}, {}
    evaluated = 0
    nontrivial = set()
    samples = []
    for r in results:
        rep.merge(r['items'])
        if r['status'].startswith('reject'):
            rejects[r['status']] = rejects.get(r['status'], 0) + 1
            continue
        evaluated += 1
        srcs[r['src']] = srcs.get(r['src'], 0) + 1
        C.add_hist(hist, r['hist'])
        for f in r['feat']:
            featc[f] = featc.get(f, 0) + 1
        if r['feat']:
            nontrivial.add(r['key'])
        if 'sample' in r and len(samples) < 5 and ('partial_prefix' in r['feat']):
            samples.append(r['sample'])
    if not samples:
        samples = [r['sample'] for r in results if 'sample' in r][:3]
    compiled = sum(v for k, v in hist.items() if k.startswith('build:') and k.endswith(':ok'))
    cov = {
        'evaluations': evaluated, 'distinct_nontrivial': len(nontrivial),
        'rule': 'cases = program (hand-over templates: input-free prefix ; read ; tail sharing the label palette, dispatch trees of 1..129 area '
                'commands, hostile output characters, count-down loops, plus the general random/template/mutation mix) x stdin, admitted by the '
                'reference interpreter; for each level 0,1,2 the emitted source is compiled unmodified by rustc and the executable is compared '
                'with `hyeong run -O0`. non-trivial = the reference run exercised a listed feature; distinct by program text + stdin.',
        'samples': samples, 'generated': n, 'rejected_by_admission': rejects, 'sources': srcs,
        'features_observed': featc, 'histogram': hist, 'executables_built_and_run': compiled,
        'cases_compiled_optimised_against_release_library': release_cases,
    }
    assumptions = ['the number-only library the executables link against is built from the CURRENT /repo working tree (dev profile, overflow checks on)',
                   'the real `hyeong build` sub-command needs the network and is not used; build_source + rustc is what the property prescribes',
                   'emitted source is never edited; HashMap iteration order of emitted initialisers is not observed',
                   'reference interpreter admits cases and classifies hand-over shapes; the verdict compares with the real -O0 interpreter run']
    minimum = {'evaluations': (evaluated, 60 if tier == 'quick' else 1500), 'executables': (compiled, 150),
               'partial_prefix': (featc.get('partial_prefix', 0), 25),
               'prefix_ends_with_area_command': (featc.get('prefix_ends_with_area_command', 0), 3),
               'pending_heart_target': (featc.get('pending_heart_target', 0), 2),
               'jump_into_prefix_after_read': (featc.get('jump_into_prefix_after_read', 0), 5),
               'heart_return_to_self': (featc.get('heart_return_to_self', 0), 3),
               'nan_at_handover': (featc.get('nan_at_handover', 0), 2),
               'input line longer than 1 MiB': (featc.get('input_line_longer_than_1MiB', 0), 1),
               'nan_onto_stack0_after_read': (featc.get('nan_onto_stack0_after_read', 0), 4),
               'big_value_at_handover': (featc.get('big_value_at_handover', 0), 3)}
    return rep.finish(cov, assumptions, t0, minimum)
