"""C06 — rationals compute exactly, stay canonical, NaN is absorbing.

Events: Num API results over random operation SEQUENCES (expression trees up to depth 6, in-place and
pure variants), each result observed through Display / is_pos / is_nan, floor for non-negative values,
and `==` against an equal value reached by a different construction.  Oracles: fractions.Fraction
(NaN = absorbing None) and a canonical-form monitor applied to every printed Num.
"""
import time
from fractions import Fraction
from . import common as C
from . import numlib as N

PID = 'C06'
MOD = 'hv.c06'
BITCAP = 320


def _too_big(v):
    return v is not None and (v.numerator.bit_length() > BITCAP or v.denominator.bit_length() > BITCAP)


def _leaf(rng, maxl):
    """-> (script, value) ; value Fraction or None (NaN)"""
    k = rng.random()
    if k < 0.45:
        p = N.rand_int(rng, maxl)
        q = N.rand_int(rng, maxl)
        if q == 0 and rng.random() < 0.7:
            q = rng.choice([1, -1, 2, 3, -7])
        if rng.random() < 0.4 and q != 0:
            # forced common factor
            g = rng.choice([2, 3, 6, 2 ** 32, 2 ** 32 - 1, 10 ** 9 + 7, N.rand_mag(rng, 2) or 5])
            p *= g
            q *= g
        if q == 0 and p == 0:
            p = 1
        return '%s %s nfrombig' % (N.limbs_tok(p), N.limbs_tok(q)), N.frac(p, q)
    if k < 0.6:
        up = rng.choice([0, 1, -1, 6, -6, 2 ** 31, -2 ** 32 - 4, rng.randint(-2 ** 40, 2 ** 40), rng.randint(-50, 50),
                         -2 ** 63, -2 ** 63 + 1, 2 ** 63 - 1])
        down = rng.choice([1, 2, 4, 3, 12, 2 ** 32, 0, rng.randint(1, 2 ** 40), rng.randint(1, 50), 2 ** 63 - 1, 2 ** 62])
        if down == 0 and up == 0:
            up = 1
        return 'I%d U%d nnew' % (up, down), N.frac(up, down)
    if k < 0.75:
        v = rng.choice([0, 1, -1, 2 ** 32, -2 ** 33, rng.randint(-2 ** 62, 2 ** 62), rng.randint(-9, 9)])
        return 'I%d nfromnum' % v, Fraction(v)
    if k < 0.84:
        return 'nzero', Fraction(0)
    if k < 0.96:
        return 'none', Fraction(1)
    return 'nnan', None


def _expr(rng, depth, maxl, big=None):
    """-> (script leaving one Num on the stack, value); big[0] is set when an intermediate value
    exceeds the size cap (the caller then discards the expression)."""
    if big is None:
        big = [False]
    if depth == 0 or rng.random() < 0.25:
        return _leaf(rng, maxl)
    k = rng.random()
    if k < 0.5:
        if rng.random() < 0.2:
            # two non-integers over the SAME denominator (the fast paths people write for this case)
            q = rng.choice([2, 3, 4, 6, 10, 12, 2 ** 32, 2 ** 32 + 1, N.rand_mag(rng, 2) or 7])
            p1, p2 = N.rand_int(rng, 1), N.rand_int(rng, 1)
            if rng.random() < 0.3:
                p2 = -p1
            a, va = '%s %s nfrombig' % (N.limbs_tok(p1), N.limbs_tok(q)), N.frac(p1, q)
            b, vb = '%s %s nfrombig' % (N.limbs_tok(p2), N.limbs_tok(q)), N.frac(p2, q)
        elif rng.random() < 0.12:
            # the second operand is DERIVED from the first: its negative, its reciprocal, itself (results cancel to exactly
            # zero / one, or double / square)
            a, va = _expr(rng, depth - 1, maxl, big)
            how = rng.choice(['nneg', 'nflip', 'nclone', 'nminus'])
            vb = N.F.neg(va) if how in ('nneg', 'nminus') else (N.F.flip(va) if how == 'nflip' else va)
            return_script = '%s dup %s' % (a, how)
            op = rng.choice(['nadd', 'nmul', 'naddas', 'nmulas'])
            if rng.random() < 0.5:
                return_script += ' swap'
            v = N.F.add(va, vb) if op in ('nadd', 'naddas') else N.F.mul(va, vb)
            if va is not None and vb is not None and (va.numerator.bit_length() + vb.denominator.bit_length() > 2 * BITCAP
                                                      or va.denominator.bit_length() + vb.denominator.bit_length() > 2 * BITCAP
                                                      or va.numerator.bit_length() + vb.numerator.bit_length() > 2 * BITCAP):
                big[0] = True
            if _too_big(v):
                big[0] = True
            return '%s %s' % (return_script, op), v
        else:
            a, va = _expr(rng, depth - 1, maxl, big)
            b, vb = _expr(rng, depth - 1, maxl, big)
        op = rng.choice(['nadd', 'nmul', 'naddas', 'nmulas'])
        if va is not None and vb is not None:
            # the implementation forms unreduced cross products before dividing by the gcd
            if (va.numerator.bit_length() + vb.denominator.bit_length() > 2 * BITCAP
                    or va.denominator.bit_length() + vb.denominator.bit_length() > 2 * BITCAP
                    or va.numerator.bit_length() + vb.numerator.bit_length() > 2 * BITCAP):
                big[0] = True
        v = N.F.add(va, vb) if op in ('nadd', 'naddas') else N.F.mul(va, vb)
        if _too_big(v):
            big[0] = True
        return '%s %s %s' % (a, b, op), v
    a, va = _expr(rng, depth - 1, maxl, big)
    op = rng.choice(['nneg', 'nminus', 'nflip', 'nflip', 'nclone'])
    if op in ('nneg', 'nminus'):
        return '%s %s' % (a, op), N.F.neg(va)
    if op == 'nflip':
        return '%s nflip' % a, N.F.flip(va)
    return '%s nclone' % a, va


def _canon(tok_expected):
    def f(tok):
        if not tok.startswith('N|'):
            return 'not a Num'
        text = tok.split('|')[1]
        why = N.canonical_problem(text)
        if why:
            return 'not canonical: ' + why
        if tok != tok_expected:
            return 'expected %s' % C.clip(tok_expected, 200)
        return None
    return f


def gen_cases(rng, n, tier):
    maxl = 3 if tier == 'quick' else 5
    out = []
    while len(out) < n:
        if rng.random() < 0.04:
            # object history: the same Num objects observed and mutated in place again and again (see numlib.num_history)
            out.append(N.num_history(rng, maxl=maxl))
            continue
        if rng.random() < 0.02:
            # very long operands (32..100 limbs, runs of equal limbs) over small denominators: one product or sum, judged by
            # `==` against the expected value built directly (printing numbers of this size would dominate the run)
            p1, p2 = N.rand_runs(rng, rng.randint(32, 100)), N.rand_runs(rng, rng.randint(32, 100))
            if rng.random() < 0.3:
                p1 = -p1
            q1, q2 = rng.choice([1, 1, 7, 2 ** 32, 10]), rng.choice([1, 1, 13, 3, 2 ** 32 + 1])
            op = rng.choice(['nmul', 'nmul', 'nmulas', 'nadd', 'naddas'])
            va, vb = N.frac(p1, q1), N.frac(p2, q2)
            v = N.F.mul(va, vb) if op in ('nmul', 'nmulas') else N.F.add(va, vb)
            script = '%s %s nfrombig %s %s nfrombig %s dup %s %s nfrombig neq out dup %s %s nfrombig neq out drop' % (
                N.limbs_tok(p1), N.limbs_tok(q1), N.limbs_tok(p2), N.limbs_tok(q2), op,
                N.limbs_tok(v.numerator), N.limbs_tok(v.denominator), N.limbs_tok(v.numerator + 2 ** rng.randint(0, 2000)), N.limbs_tok(v.denominator))
            out.append({'script': script, 'expect': ['b|1', 'b|0'], 'tag': 'expr', 'tags': ['very_long_operands', 'op:' + op],
                        'desc': '%s on very long operands' % op, 'trivial': False})
            continue
        depth = rng.choice([1, 2, 2, 3, 3, 4, 5, 6])
        big = [False]
        s, v = _expr(rng, depth, maxl, big)
        if big[0] or _too_big(v) or len(s) > 6000:
            continue
        # intermediate sizes are bounded by construction depth; re-evaluate cheaply to skip monsters
        tags = ['depth:%d' % depth]
        if v is None:
            tags.append('result:nan')
        else:
            tags.append('result:' + ('neg' if v < 0 else ('zero' if v == 0 else 'pos')) + ('_frac' if v.denominator != 1 else '_int'))
        script = s + ' dup out'
        expect = [_canon(N.exp_num(v))]
        k = rng.random()
        if v is not None and k < 0.45:
            # the same value reached by a different construction must be structurally equal
            m = rng.choice([1, 2, -1, -3, 2 ** 32, 7 * 11 * 13, -(2 ** 32 - 1)])
            script += ' dup %s %s nfrombig neq out' % (N.limbs_tok(v.numerator * m), N.limbs_tok(v.denominator * m))
            expect.append('b|1')
            tags.append('eq_other_construction')
            # ... and differ from a neighbouring value
            script += ' dup %s %s nfrombig neq out' % (N.limbs_tok(v.numerator * m + 1), N.limbs_tok(v.denominator * m))
            expect.append('b|0')
        if v is not None and v >= 0 and k > 0.3:
            script += ' dup nfloor out'
            expect.append(N.exp_big(v.numerator // v.denominator))
            tags.append('floor')
        if k > 0.7:
            script += ' dup nispos out dup nisnan out'
            expect += ['b|%d' % (1 if (v is not None and v >= 0) else 0), 'b|%d' % (1 if v is None else 0)]
        script += ' drop'
        out.append({'script': script, 'expect': expect, 'tag': 'expr', 'tags': tags,
                    'desc': 'Num expression of depth %d' % depth, 'trivial': depth <= 1 and v is not None and v.denominator == 1})
    return out


def main(tier, seed):
    t0 = time.time()
    rep = C.Reporter(PID, tier, seed)
    C.build(['num'])
    shards, per = (32, 1250) if tier == 'quick' else (160, 12500)
    bad, hist, samples, n = N.run_sharded(MOD, tier, seed, shards, per)
    for c, why in bad:
        rep.violation('num:' + c['script'], 'Num result differs from the exact rational / is not canonical',
                      {'script': c['script'], 'what': c['desc'], 'problem': why, 'replay': "echo '<script>' | %s" % C.HV_NUM})
    distinct = hist.pop('_distinct', 0)
    cov = {
        'evaluations': n, 'distinct_nontrivial': distinct,
        'rule': 'random Num expression sequences (depth <= 6) over from_big_num/new/from_num/zero/one/nan with + * neg minus flip += *= clone; '
                'operands multi-limb or small, every sign, zero, forced common factors, NaN. Every result: Display/is_pos/is_nan vs Fraction, '
                'canonical-form monitor, == against the same value built differently (must be true) and a neighbour (must be false), floor for '
                'non-negative results. non-trivial = depth > 1 or non-integer or NaN; distinct by script text.',
        'samples': samples, 'histogram': hist,
    }
    assumptions = ['fractions.Fraction with None as absorbing NaN is the oracle', 'NaN == NaN is not judged',
                   'results capped at %d bits (the real gcd/division is cubic)' % BITCAP, 'floor judged only for non-negative values (as the property states)']
    minimum = {'evaluations': (n, 5000), 'object histories': (hist.get('object_history', 0), 300), 'very long operands': (hist.get('very_long_operands', 0), 100), 'negative fractions': (hist.get('result:neg_frac', 0), 300),
               'nan results': (hist.get('result:nan', 0), 300), 'eq_other_construction': (hist.get('eq_other_construction', 0), 500)}
    return rep.finish(cov, assumptions, t0, minimum)
