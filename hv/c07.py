"""C07 — comparison of rationals is the numeric order; NaN is unordered.

Events: (a) Num::partial_cmp and == on ordered pairs through hv_num; (b) program level: which branch of
?/! areas is taken, observed in hv_trace step records (next command, number of operands consumed,
stack contents) of programs whose area-carrying commands are plain pushes, so that a divergence at such
a step is attributable to the comparison.  Oracle: Fraction order; unordered iff either side is NaN.
"""
import os
import time
from fractions import Fraction
from . import common as C
from . import numlib as N
from . import progcheck as P
from . import tracecheck as T
from .gen import rand_area, push_value, epilogue
from .refinterp import Limits

PID = 'C07'
MOD = 'hv.c07'


# ------------------------------------------------------------------------------- number level
_TOK_RNG = [None]


def _num_tok(v):
    """A script that leaves the value v on the stack.  The same value is reached by different routes (reduced,
    unreduced with a common factor or a negative denominator, as a sum that cancels, as a product with zero, NaN
    from different constructions): comparison and equality must not depend on the route."""
    rng = _TOK_RNG[0]
    if v is None:
        r = rng.random() if rng else 1.0
        if r < 0.25:
            return '%s B+0 nfrombig' % N.limbs_tok(rng.choice([1, 5, -3]))
        if r < 0.4:
            return 'nzero nflip'
        if r < 0.5:
            return 'nnan nneg'
        if r < 0.62:
            return rng.choice(['nnan nminus', 'nzero nflip nminus', 'nnan nminus nminus', 'nnan nneg nflip', 'none nzero nflip nmul nminus'])
        return 'nnan'
    p, q = v.numerator, v.denominator
    r = rng.random() if rng else 1.0
    if r < 0.35:
        k = rng.choice([2, 3, -1, -2, 6, 2 ** 32, -(2 ** 32 - 1), 10 ** 9 + 7])
        return '%s %s nfrombig' % (N.limbs_tok(p * k), N.limbs_tok(q * k))
    if r < 0.5:
        # v = (v - w) + w
        w = Fraction(rng.randint(-9, 9), rng.choice([1, 2, 3, 4]))
        a = v - w
        return '%s %s nfrombig %s %s nfrombig nadd' % (N.limbs_tok(a.numerator), N.limbs_tok(a.denominator), N.limbs_tok(w.numerator), N.limbs_tok(w.denominator))
    if r < 0.58 and v == 0:
        w = Fraction(rng.randint(-9, 9), rng.choice([2, 3, 4]))
        return 'nzero %s %s nfrombig nmul' % (N.limbs_tok(w.numerator), N.limbs_tok(w.denominator))
    return '%s %s nfrombig' % (N.limbs_tok(p), N.limbs_tok(q))


def _rand_frac(rng, maxl):
    k = rng.random()
    if k < 0.08:
        return None
    p = N.rand_int(rng, maxl)
    if k < 0.4:
        return Fraction(p)
    q = N.rand_mag(rng, maxl) or 1
    return Fraction(p, q)


def gen_cases(rng, n, tier):
    maxl = 3 if tier == 'quick' else 5
    out = []
    _TOK_RNG[0] = rng
    for _ in range(n):
        if rng.random() < 0.04:
            # object history: the same Num objects are rendered, negated, copied ... and compared again and again; only the
            # comparison results are judged here
            out.append(N.num_history(rng, maxl=2, judge='cmp'))
            continue
        a = _rand_frac(rng, maxl)
        if rng.random() < 0.08:
            a = Fraction(0)
        k = rng.random()
        hard = None
        if rng.random() < 0.25:
            # the HARDEST pairs for any approximate comparison: neighbouring convergents of one continued fraction
            # (p_k q_{k+1} - p_{k+1} q_k = +-1: unequal values that agree to all but the last digit of the cross products),
            # a value and the same value plus an extremely small fraction, mediants
            r = rng.random()
            terms = [rng.choice([1, 1, 2, 3, 7, 40, rng.randint(1, 10 ** 6)]) for _ in range(rng.randint(4, 60))]
            p0, q0, p1, q1 = 1, 0, terms[0], 1
            conv = [(p1, q1)]
            for t in terms[1:]:
                p0, q0, p1, q1 = p1, q1, t * p1 + p0, t * q1 + q0
                conv.append((p1, q1))
            j = rng.randint(max(1, len(conv) - 12), len(conv) - 1)
            if r < 0.6:
                hard = (Fraction(*conv[j]), Fraction(*conv[j - 1]))
            elif r < 0.75 and j >= 2:
                hard = (Fraction(*conv[j]), Fraction(*conv[j - 2]))
            elif r < 0.9:
                x = Fraction(*conv[min(j, 6)])
                hard = (x, x + Fraction(rng.choice([1, -1]), rng.choice([10, 2, 7]) ** rng.randint(15, 120)))
            else:
                hard = (Fraction(*conv[j]), Fraction(conv[j][0] + conv[j - 1][0], conv[j][1] + conv[j - 1][1]))
            if rng.random() < 0.3:
                hard = (-hard[0], -hard[1])
        if hard is None and rng.random() < 0.03:
            # NaN (reached by any route, negated in place or not) against the values a shortcut would single out
            hard = (None, rng.choice([Fraction(0), Fraction(0), Fraction(1), Fraction(-1), Fraction(1, 2 ** 64), Fraction(-2 ** 64), None]))
        if hard is not None:
            a, b = hard
        elif a is None or k < 0.3:
            b = _rand_frac(rng, maxl)
        elif k < 0.4:
            b = a
        elif k < 0.5:
            b = -a
        elif k < 0.6:
            # differs only in denominator
            b = Fraction(a.numerator, a.denominator + rng.choice([1, 2, 2 ** 32]))
        elif k < 0.75:
            # tiny difference relative to magnitude
            m = rng.choice([2, 3, 2 ** 32, 2 ** 64 + 1, 10 ** 9 + 7])
            b = Fraction(a.numerator * m + rng.choice([-1, 1]), a.denominator * m)
        elif k < 0.85:
            b = a + rng.choice([1, -1, Fraction(1, 2), Fraction(-1, 3)])
        else:
            # same numerator/denominator swapped or same cross products in part
            b = Fraction(a.denominator, a.numerator) if a.numerator != 0 else Fraction(0)
        if rng.random() < 0.5:
            a, b = b, a
        if a is None or b is None:
            o, e = 'N', None
        else:
            o = 'E' if a == b else ('L' if a < b else 'G')
            e = 1 if a == b else 0
        script = '%s %s ncmp out' % (_num_tok(a), _num_tok(b))
        expect = ['o|' + o]
        if rng.random() < 0.3:
            # the ordering operators themselves (unordered: all four are false)
            opr = rng.choice(['lt', 'le', 'gt', 'ge'])
            script += ' %s %s n%s out' % (_num_tok(a), _num_tok(b), opr)
            expect.append('b|%d' % (0 if (a is None or b is None) else (1 if {'lt': a < b, 'le': a <= b, 'gt': a > b, 'ge': a >= b}[opr] else 0)))
        if e is not None:
            script += ' %s %s neq out' % (_num_tok(a), _num_tok(b))
            expect.append('b|%d' % e)
        cls = lambda v: 'nan' if v is None else (('neg' if v < 0 else ('zero' if v == 0 else 'pos')) + ('_frac' if v.denominator != 1 else '_int'))
        out.append({'script': script, 'expect': expect, 'tag': 'pair', 'tags': ['cmp:' + o, 'lhs:' + cls(a), 'rhs:' + cls(b)] + (['nearly_equal_pair'] if hard is not None else []),
                    'desc': 'partial_cmp / == on a pair', 'trivial': False})
    return out


# ------------------------------------------------------------------------------ program level
def gen_compare_prog(rng, nan_bias=False, cur=None):
    """Operands (integers, fractions, negatives, NaN from an empty stack) prepared by area-less commands,
    then 2-5 plain pushes carrying ?/! areas whose count lies among the operands."""
    if cur is None:
        # one program in eight does everything on stack 0 (selected first; own values, stored NaN and, once they run out, end
        # of input): compiled programs implement stack 0 separately
        cur = 0 if rng.random() < 0.125 else 3
    counts = [rng.choice([0, 0, 1, 1, 2, 3, 5, 7, 12, 33, 100, 200, rng.randint(0, 200)]) for _ in range(rng.randint(1, 2))]
    prog = [(5, 1, 0, None)] if cur == 0 else []
    nops = rng.randint(3, 9)
    for _ in range(nops):
        c = rng.choice(counts)
        k = rng.random()
        if nan_bias and rng.random() < 0.3 and prog:
            k = 0.95            # a stored NaN (1/0 pushed back onto the non-empty stack) between real operands
        if k < 0.06:
            # an integer (or integer + 1/2) at or above 2^32 whose LOW limb is small: 16^8 (+ small)
            prog += [(0, 1, 16, None)] * 8 + [(2, 8, cur, None)]
            if rng.random() < 0.6:
                prog += push_value(rng.choice([0, 1, 2, c, max(0, c - 1)]), cur) + [(1, 2, cur, None)]
            if rng.random() < 0.3:
                prog += push_value(1, cur) + push_value(2, cur) + [(4, 1, 5, None), (2, 2, cur, None), (1, 2, cur, None)]
        elif k < 0.12:
            # the count plus or minus an extremely small fraction: c +- 1/b^e
            b_, e_ = rng.choice([(10, rng.randint(16, 50)), (2, rng.randint(50, 64)), (7, rng.randint(20, 40))])
            prog += [(0, 1, b_, None)] * e_ + [(2, e_, cur, None), (4, 1, 5, None)]          # 1/b^e stays on stack 3
            if rng.random() < 0.5:
                prog += [(3, 1, 5, None)]                                                   # negated
            prog += push_value(c, cur) + [(1, 2, cur, None)]
        elif k < 0.35:
            v = max(0, c + rng.choice([-1, 0, 0, 1, -c, c]))
            prog += push_value(v, cur)
        elif k < 0.75:
            # fraction p/q near c (or near -c, or a proper fraction near 0):  p = c*q + r
            q = rng.choice([2, 3, 4, 7])
            p = c * q + rng.choice([-1, 1, 0, -q, q, 1])
            if rng.random() < 0.25:
                p = rng.randint(1, q - 1)
            p = max(p, 0)
            prog += push_value(p, cur) + push_value(q, cur) + [(4, 1, 5, None), (2, 2, cur, None)]
            if rng.random() < 0.35:
                prog += [(3, 1, 5, None)]       # negate the fraction
        elif k < 0.9:
            prog += push_value(max(0, c + rng.choice([-1, 0, 1])), cur) + [(3, 1, 5, None)]
        else:
            prog += push_value(0, cur) + [(4, 1, 5, None)]       # 1/0 -> NaN pushed back onto a non-empty stack
    hearts = [rng.choice([2, 3, 4]), rng.choice([5, 6, 7]), 13]
    ncmp = rng.randint(2, 5)
    cmp_idx = []
    for _ in range(ncmp):
        c = rng.choice(counts)
        h = rng.choice([x for x in (1, 2, 3, 4, 5) if c % x == 0]) if c else rng.choice([1, 2, 3])
        cmp_idx.append(len(prog))
        a = rand_area(rng, hearts, p_none=0.0, p_more_q=0.6, p_more_b=0.45, p_slot_none=0.5, maxq=3, maxb=2)
        if rng.random() < 0.8:
            # the push itself puts `count` on top; a leading '?' consumes it (count < count is false -> right)
            # so that the remaining operators meet the prepared operands
            a = ('?', None, a)
        if c > 3 and rng.random() < 0.25 and cur == 3:
            # the comparison sits on an add / multiply command with more than three dots (count = dots): it moves one operand
            # to stack `count` and then its area pops the operands proper
            prog.append((rng.choice([1, 2]), 1, c, a[2] if (isinstance(a, tuple) and a[0] == '?' and a[1] is None) else a))
        else:
            prog.append((0, h, c // h if c else 0, a))
        if rng.random() < 0.3:
            prog += push_value(rng.choice(counts), cur)
    if nan_bias or rng.random() < 0.6:
        prog = epilogue(rng, prog)
    return prog, set(cmp_idx)


_RUN = {}


def _case(i):
    tier, seed, rundir = _RUN['tier'], _RUN['seed'], _RUN['dir']
    rng = C.rng_for(seed, PID, 'prog', tier, i)
    res = {'i': i, 'items': [], 'hist': {}, 'status': 'ok'}
    prog, cmp_idx = gen_compare_prog(rng)
    text = P.render_text(rng, prog)
    if text is None:
        res['status'] = 'reject'
        return res
    lim = Limits(steps=3000)
    m, ro, re_, rend = P.admit(prog, '', lim)
    if rend.startswith('notadmitted'):
        res['status'] = 'reject'
        return res
    # classify the comparisons the reference performed
    m2 = P.Machine(prog, '', lim)
    m2.cmp_log = []
    m2.run()
    for v, cnt, op, left in m2.cmp_log:
        cls = 'nan' if v is None else ('frac' if v.denominator != 1 else 'int')
        rel = 'nan' if v is None else ('lt' if v < cnt else ('eq' if v == cnt else 'gt'))
        res['hist']['branch:%s:%s:%s' % (op, cls, 'left' if left else 'right')] = res['hist'].get('branch:%s:%s:%s' % (op, cls, 'left' if left else 'right'), 0) + 1
        res['hist']['operand_vs_count:' + rel] = res['hist'].get('operand_vs_count:' + rel, 0) + 1
        if cnt != 0:
            res['hist']['compares_count_nonzero'] = res['hist'].get('compares_count_nonzero', 0) + 1
        else:
            res['hist']['compares_count_zero'] = res['hist'].get('compares_count_zero', 0) + 1
        if v is not None and v.denominator != 1 and v < 0:
            res['hist']['negative_fraction_operands'] = res['hist'].get('negative_fraction_operands', 0) + 1
            if -1 < v - cnt < 1:
                res['hist']['negative_fraction_within_1_of_count'] = res['hist'].get('negative_fraction_within_1_of_count', 0) + 1
    res['ncmp'] = len(m2.cmp_log)
    res['key'] = C.sha(text)
    path = P.write_program(rundir, 'p%d_%d.hyeong' % (os.getpid(), i), text)
    tpath = os.path.join(rundir, 't%d_%d.jsonl' % (os.getpid(), i))
    try:
        proc, recs, terr = T.run_trace('one', path, b'', tpath, lim.steps * 2)
        if proc.wall_timeout or proc.cpu_killed or terr or proc.crashed:
            res['items'].append(('i', 'trace unusable for %s' % res['key']))
            return res
        diff, info = T.compare('one', prog, '', proc, recs, lim)
        res['hist']['steps_compared'] = info.get('steps_compared', 0)
        if diff is not None:
            loc = diff.get('loc')
            if loc in cmp_idx and diff['what'] in ('next command (control flow)', 'stack contents', 'selected stack',
                                                    'reference exits here, real run continues', 'real run stopped early'):
                res['items'].append(('v', 'branch:' + res['key'], 'a ?/! branch differs from the numeric order', {
                    'program': text, 'divergence': diff, 'comparisons_by_reference': [
                        {'value': N.fr_text(v), 'count': cnt, 'op': op, 'left': left} for v, cnt, op, left in m2.cmp_log[:12]]}))
            else:
                res['hist']['diverged_outside_comparisons(see C01/C06)'] = 1
        res['sample'] = {'program': C.clip(text, 200), 'comparisons': [
            '%s %s %d -> %s' % (N.fr_text(v), op, cnt, 'left' if left else 'right') for v, cnt, op, left in m2.cmp_log[:6]]}
        if diff is None and rend in ('end', 'exit0', 'exit1'):
            # the same comparisons at optimisation levels 1 and 2 (the optimiser rewrites stack operands; the count a command
            # compares with must stay syllables x dots of the SOURCE).  Attribution as in the compiled slice: the program
            # with all areas removed is the control.
            control = [(t_, h_, d_, None) for (t_, h_, d_, a_) in prog]
            mc, co, ce, cend = P.admit(control, '', lim)
            ctext = P.render_text(rng, control)
            if ctext is not None and cend in ('end', 'exit0', 'exit1'):
                cpath = P.write_program(rundir, 'c%d_%d.hyeong' % (os.getpid(), i), ctext)
                try:
                    for level in (1, 2):
                        obs = P.run_interp(C.HYEONG, path, level, b'', hint=(re_, rend))
                        if obs.kind in ('wall', 'cpu'):
                            res['items'].append(('i', 'level %d run unusable for %s' % (level, res['key'])))
                            continue
                        d1 = P.compare_to_ref(obs, ro, re_, rend, lenient_encerr=True)
                        res['hist']['optimised_runs_of_compare_programs'] = res['hist'].get('optimised_runs_of_compare_programs', 0) + 1
                        if d1 is None or d1.startswith('INCONCLUSIVE'):
                            continue
                        cobs = P.run_interp(C.HYEONG, cpath, level, b'', hint=(ce, cend))
                        if P.compare_to_ref(cobs, co, ce, cend, lenient_encerr=True) is not None:
                            res['hist']['optimised_control_differs(see C02)'] = 1
                            continue
                        res['items'].append(('v', 'branch-O%d:%s' % (level, res['key']), 'at an optimisation level a ?/! branch differs from the numeric order', {
                            'program': text, 'level': level, 'difference': d1, 'comparisons_by_reference': [
                                {'value': N.fr_text(v), 'count': cnt, 'op': op, 'left': left} for v, cnt, op, left in m2.cmp_log[:12]]}))
                finally:
                    try:
                        os.unlink(cpath)
                    except OSError:
                        pass
        return res
    finally:
        for p_ in (path, tpath):
            try:
                os.unlink(p_)
            except OSError:
                pass


def _compiled_case(i):
    """The emitted comparison code (compile.rs area()): a compiled compare program must take the same
    branches.  Attribution: the same program with all areas removed (no comparison at all) is compiled as
    a control; only when the control behaves and the full program does not is the divergence put on the
    emitted ?/! code."""
    from . import compilecheck as K
    tier, seed, rundir = _RUN['tier'], _RUN['seed'], _RUN['dir']
    rng = C.rng_for(seed, PID, 'compiled', tier, i)
    res = {'i': i, 'items': [], 'hist': {}, 'status': 'reject'}
    # every third compiled program compares on stack 0 (the emitted program has its own stack 0 / input implementation)
    prog, cmp_idx = gen_compare_prog(rng, nan_bias=rng.random() < 0.6, cur=(0 if i % 3 == 0 else None))
    control = [(t, h, d, None) for (t, h, d, a) in prog]
    lim = Limits(steps=3000)
    m, ro, re_, rend = P.admit(prog, '', lim)
    mc, co, ce, cend = P.admit(control, '', lim)
    if rend not in ('end', 'exit0', 'exit1') or cend not in ('end', 'exit0', 'exit1'):
        return res
    text = P.render_text(rng, prog)
    ctext = P.render_text(rng, control)
    if text is None or ctext is None:
        return res
    res['status'] = 'ok'
    level = rng.choice([0, 0, 1, 2])
    wd = os.path.join(rundir, 'k%d_%d' % (os.getpid(), i))
    os.makedirs(wd + '/a', exist_ok=True)
    os.makedirs(wd + '/b', exist_ok=True)
    try:
        pa = P.write_program(wd + '/a', 'p.hyeong', text)
        pb = P.write_program(wd + '/b', 'p.hyeong', ctext)
        sa, ea, _ = K.build_exe(wd + '/a', pa, level)
        sb_, eb, _ = K.build_exe(wd + '/b', pb, level)
        if sa != 'ok' or sb_ != 'ok':
            res['hist']['compiled_not_built(see C03)'] = 1
            return res
        oa = K.run_exe(ea, b'')
        ob = K.run_exe(eb, b'')

        def same(o, out, err, end):
            return o.kind == P.expect_from_ref(end) and o.out == out and o.err == err
        res['hist']['compiled_programs'] = 1
        if prog and prog[0] == (5, 1, 0, None):
            res['hist']['compiled_programs_comparing_on_stack0'] = 1
        res['hist']['compiled_comparisons'] = m.st['cmp_q_left'] + m.st['cmp_q_right'] + m.st['cmp_b_left'] + m.st['cmp_b_right']
        if not same(ob, co, ce, cend):
            res['hist']['compiled_control_differs(see C03)'] = 1
            return res
        if not same(oa, ro, re_, rend):
            res['items'].append(('v', 'compiled-branch:' + C.sha(text), 'a compiled program takes a different ?/! branch', {
                'program': text, 'level': level, 'expected': {'stdout': C.clip(ro), 'stderr': C.clip(re_), 'end': rend},
                'observed': oa.brief(), 'control_without_areas_behaves': True}))
        return res
    finally:
        import shutil
        shutil.rmtree(wd, ignore_errors=True)


def main(tier, seed):
    t0 = time.time()
    rep = C.Reporter(PID, tier, seed)
    C.build(['repo', 'num', 'core'])
    shards, per = (32, 1250) if tier == 'quick' else (160, 12500)
    bad, hist, samples, n = N.run_sharded(MOD, tier, seed, shards, per)
    for c, why in bad:
        rep.violation('num:' + c['script'], 'comparison differs from the numeric order',
                      {'script': c['script'], 'problem': why, 'replay': "echo '<script>' | %s" % C.HV_NUM})
    distinct = hist.pop('_distinct', 0)
    # program level
    np_ = 2500 if tier == 'quick' else 100000
    rundir = C.mktmp(PID)
    _RUN.update(tier=tier, seed=seed, dir=rundir)
    results = C.pmap(_case, list(range(np_)), chunksize=4, stop_after_bad=60,
                     is_bad=lambda r: any(it[0] == 'v' for it in r['items']))
    phist = {}
    progs = 0
    keys = set()
    psamples = []
    ncmp = 0
    for r in results:
        rep.merge(r['items'])
        if r['status'] != 'ok':
            continue
        progs += 1
        C.add_hist(phist, r['hist'])
        ncmp += r.get('ncmp', 0)
        if r.get('ncmp'):
            keys.add(r['key'])
        if 'sample' in r and len(psamples) < 3 and r.get('ncmp', 0) >= 3:
            psamples.append(r['sample'])
    # compiled programs (the emitted comparison code)
    C.build(['numlib'])
    nc = 128 if tier == 'quick' else 3000
    chist = {}
    for r in C.pmap(_compiled_case, list(range(nc)), chunksize=1):
        rep.merge(r['items'])
        C.add_hist(chist, r['hist'])
    cov = {
        'evaluations': n + progs + chist.get('compiled_programs', 0), 'distinct_nontrivial': distinct + len(keys),
        'rule': 'number level: ordered pairs over all sign combinations, integers vs fractions, equal values, values differing only in the '
                'denominator, tiny relative differences, multi-limb cross products, NaN on either side: partial_cmp and == vs Fraction. '
                'program level: programs whose ?/! areas sit on plain pushes with counts 1..200 and operands (ints, fractions, negatives, NaN) '
                'on both sides of the count; hv_trace step records compared with the reference, divergences at comparison steps are violations. '
                'compiled level: a slice of the same programs compiled (levels 0-2) next to a control without areas; a divergence of the full program while the control behaves is put on the emitted ?/! code. '
                'distinct by script / program text; non-trivial = every pair, and programs that performed >= 1 comparison.',
        'samples': samples[:4] + psamples, 'number_level': {'pairs': n, 'histogram': hist},
        'program_level': {'programs': progs, 'comparisons_performed': ncmp, 'histogram': phist},
        'compiled_level': chist,
    }
    assumptions = ['Fraction order is the oracle; NaN compares unordered and takes the right branch',
                   'program-level attribution: only divergences at a step whose command is a plain push with an area are judged here; others are left to C01/C06']
    minimum = {'pairs': (n, 5000), 'nearly equal pairs': (hist.get('nearly_equal_pair', 0), 2000), 'object histories': (hist.get('object_history', 0), 300), 'cmp:N': (hist.get('cmp:N', 0), 100), 'cmp:L': (hist.get('cmp:L', 0), 500),
               'program comparisons': (ncmp, 1000), 'comparisons in compiled programs': (chist.get('compiled_comparisons', 0), 150),
               'compiled programs comparing on stack 0': (chist.get('compiled_programs_comparing_on_stack0', 0), 10),
               'fraction operands at ?': (phist.get('branch:?:frac:left', 0) + phist.get('branch:?:frac:right', 0), 100),
               'negative fractions within 1 of the count': (phist.get('negative_fraction_within_1_of_count', 0), 10)}
    return rep.finish(cov, assumptions, t0, minimum)
