"""Reference parser (oracle for C04/C08): NOT a state machine over characters.

  1. record the last position of each end-syllable class;
  2. a command starts at a single-syllable command character, or at 혀/하/흐 when a matching end
     syllable occurs strictly later in the text;
  3. for a multi-syllable command count Hangul syllables up to and including the first matching end
     syllable;
  4. the tail up to the next command start is classified character by character: dots before the
     first area character count ('.' = 1, '…' '⋯' '⋮' = 3), area characters are collected,
     everything else is dropped;
  5. the area string is split on '?', each part on '!', each slot is its first heart (or nothing),
     both levels fold to the right.
Location = (1 + newlines before the start, characters since the last newline).
Raw = start character + counted syllables + counted dots + every area character.
"""
from .lang import HEARTS, HEART_CODE, DOTS, SINGLE, is_hangul

STARTS = {'혀': 0, '하': 1, '흐': 2}
ENDS = [{'엉': 0}, {'앙': 1, '앗': 2}, {'읏': 3, '읍': 4, '윽': 5}]
END_CLASS = {}
for _k, _d in enumerate(ENDS):
    for _c in _d:
        END_CLASS[_c] = _k
SINGLE_KIND = {c: i for i, c in enumerate(SINGLE)}
AREA_CHARS = set('?!') | set(HEARTS)


def area_tree(chars):
    s = ''.join(chars)
    if not s:
        return None

    def slot(t):
        for ch in t:
            if ch in HEART_CODE:
                return HEART_CODE[ch]
        return None

    def bexpr(t):
        parts = t.split('!')
        a = slot(parts[-1])
        for p in reversed(parts[:-1]):
            a = ('!', slot(p), a)
        return a

    parts = s.split('?')
    a = bexpr(parts[-1])
    for p in reversed(parts[:-1]):
        a = ('?', bexpr(p), a)
    return a


def parse(text):
    """-> list of (kind, syllables, dots, area, line, col, raw)"""
    cs = text
    n = len(cs)
    last = [-1, -1, -1]
    for i, c in enumerate(cs):
        k = END_CLASS.get(c)
        if k is not None:
            last[k] = i
    # positions of newlines for location computation
    res = []
    line = 1
    line_start = 0
    i = 0

    def starts_at(j):
        c = cs[j]
        if c in SINGLE_KIND:
            return ('s', SINGLE_KIND[c])
        k = STARTS.get(c)
        if k is not None and last[k] > j:
            return ('m', k)
        return None

    while i < n:
        c = cs[i]
        if c == '\n':
            line += 1
            line_start = i + 1
            i += 1
            continue
        st = starts_at(i)
        if st is None:
            i += 1
            continue
        loc_line = line
        loc_col = i - line_start
        raw = [c]
        h = 1
        if st[0] == 's':
            typ = st[1]
            j = i + 1
        else:
            j = i + 1
            ends = ENDS[st[1]]
            while True:
                cc = cs[j]
                if cc == '\n':
                    line += 1
                    line_start = j + 1
                if is_hangul(cc):
                    h += 1
                    raw.append(cc)
                j += 1
                if cc in ends:
                    typ = ends[cc]
                    break
        d = 0
        area = []
        in_area = False
        while j < n and starts_at(j) is None:
            cc = cs[j]
            if cc == '\n':
                line += 1
                line_start = j + 1
            elif cc in DOTS:
                if not in_area:
                    d += DOTS[cc]
                    raw.append(cc)
            elif cc in AREA_CHARS:
                in_area = True
                area.append(cc)
                raw.append(cc)
            j += 1
        res.append((typ, h, d, area_tree(area), loc_line, loc_col, ''.join(raw)))
        i = j
    return res


def commands_only(parsed):
    return [(t, h, d, a) for (t, h, d, a, _l, _c, _r) in parsed]
