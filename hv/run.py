"""python3 -m hv.run <property|selfcheck> [--tier quick|thorough] [--replay FILE]

Exit status: 0 = held on everything observed (KNOWN-FINDING lines possible), 1 = violation (with
`VIOLATION property=<id> replay=<path>` lines), 2 = inconclusive (infrastructure failure or too little
observed) — never reported as a violation.
"""
import importlib
import os
import sys
import traceback

from . import common as C


def main(argv):
    if not argv:
        print(__doc__)
        return 2
    what = argv[0]
    tier = os.environ.get('VERIF_TIER', 'quick')
    replay = None
    i = 1
    while i < len(argv):
        if argv[i] == '--tier':
            tier = argv[i + 1]
            i += 2
        elif argv[i] == '--replay':
            replay = argv[i + 1]
            i += 2
        else:
            print('unknown argument', argv[i])
            return 2
    if tier not in ('quick', 'thorough'):
        tier = 'quick'
    seed = C.get_seed()
    name = what.lower()
    try:
        mod = importlib.import_module('hv.' + name)
    except ImportError as e:
        print('no such check:', what, e)
        return 2
    try:
        if replay is not None:
            from . import replay as R
            return R.replay(replay)
        return mod.main(tier, seed)
    except C.Inconclusive as e:
        print('INCONCLUSIVE property=%s %s' % (what.upper(), e))
        return 2
    except Exception:
        traceback.print_exc()
        print('INCONCLUSIVE property=%s harness error (see traceback)' % what.upper())
        return 2


if __name__ == '__main__':
    sys.exit(main(sys.argv[1:]))
