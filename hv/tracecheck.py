"""Lock-step comparison of an hv_trace event log (real interpreter core) with the reference interpreter."""
import json
import os
from . import common as C
from .refinterp import Machine, Exit, EncErr, NotAdmitted


def parse_state(s):
    """Debug rendering of UnOptState -> (cur, {idx: [text,...]} non-empty stacks only)."""
    lines = s.split('\n')
    if not lines[0].startswith('current stack: '):
        raise ValueError('bad state dump: %r' % s[:80])
    cur = int(lines[0][len('current stack: '):])
    stacks = {}
    for ln in lines[1:]:
        if not ln:
            continue
        if not ln.startswith('stack '):
            raise ValueError('bad state line: %r' % ln[:80])
        k, rest = ln[6:].split(': ', 1)
        body = rest[1:-1]
        if body:
            stacks[int(k)] = body.split(', ')
    return cur, stacks


def run_trace(mode, prog_path, stdin_bytes, trace_path, max_steps):
    try:
        os.unlink(trace_path)
    except OSError:
        pass
    p = C.run_proc([C.HV_TRACE, mode, prog_path, trace_path, str(max_steps)], stdin_bytes, cpu=120, wall=300)
    recs = []
    try:
        with open(trace_path, encoding='utf-8') as f:
            for line in f:
                if line.strip():
                    recs.append(json.loads(line))
    except (OSError, ValueError) as e:
        return p, None, 'trace unreadable: %s' % e
    finally:
        try:
            os.unlink(trace_path)
        except OSError:
            pass
    return p, recs, None


def compare(mode, prog, stdin_text, proc, recs, limits):
    """-> (diff or None, info). diff is a dict describing the first divergence."""
    m = Machine(prog, stdin_text, limits)
    n = len(prog)
    info = {'steps_compared': 0, 'chunks': 0}
    ri = 0                     # index into recs
    out_seen = 0
    err_seen = 0

    def take_chunks():
        """consume out/err records up to the next non-chunk record -> (out_text, err_text)"""
        nonlocal ri
        o, e = [], []
        while ri < len(recs) and recs[ri]['k'] in ('out', 'err'):
            (o if recs[ri]['k'] == 'out' else e).append(recs[ri]['s'])
            info['chunks'] += 1
            ri += 1
        return ''.join(o), ''.join(e)

    def ref_delta():
        nonlocal out_seen, err_seen
        o = ''.join(m.out[out_seen:])
        e = ''.join(m.err[err_seen:])
        out_seen = len(m.out)
        err_seen = len(m.err)
        return o, e

    def div(what, step, **kw):
        d = {'mode': mode, 'what': what, 'at_step': step}
        d.update(kw)
        return d

    loc = 0
    step = 0
    top = 0                    # inc mode: index of the top-level command being executed
    while True:
        if mode == 'one':
            if loc >= n:
                break
        else:
            if top >= n:
                break
            loc = top
        # --- reference executes one observation unit
        ending = None
        nxt = None
        try:
            if mode == 'one':
                m.steps += 1
                nxt = m.step(loc)
            else:
                l = loc
                while l <= top:
                    m.steps += 1
                    if m.steps > limits.steps * 2:
                        raise NotAdmitted('step budget')
                    l = m.step(l)
                nxt = top + 1
        except Exit as ex:
            ending = ('exit', ex.code)
        except EncErr:
            ending = ('encerr', None)
        except NotAdmitted as ex:
            return None, dict(info, aborted='reference not admitted mid-run: ' + ex.why)
        step += 1
        ro, re_ = ref_delta()
        go, ge = take_chunks()
        if go != ro or ge != re_:
            return div('output written during this command differs', step, loc=loc, command=prog[loc],
                       expected_stdout=C.clip(ro), observed_stdout=C.clip(go),
                       expected_stderr=C.clip(re_), observed_stderr=C.clip(ge)), info
        if ending is not None:
            if ending[0] == 'exit':
                if ri < len(recs):
                    return div('reference exits here, real run continues', step, loc=loc, next_record=recs[ri]), info
                if proc.rc != ending[1]:
                    return div('exit status', step, expected=ending[1], observed=proc.rc), info
                info['ending'] = 'exit%d' % ending[1]
                return None, info
            else:
                if ri >= len(recs) or recs[ri]['k'] != 'error':
                    return div('reference stops with an encoding error, real run does not', step, loc=loc,
                               next_record=(recs[ri] if ri < len(recs) else None), rc=proc.rc), info
                # the wording of the error is not fixed by the property: any diagnosed error at this point counts
                info['ending'] = 'encerr'
                return None, info
        if ri >= len(recs):
            return div('real run stopped early', step, loc=loc, rc=proc.rc, stderr=C.clip(proc.err)), info
        r = recs[ri]
        ri += 1
        if r['k'] != 'step':
            return div('unexpected record', step, record=r, loc=loc), info
        if r['loc'] != loc:
            return div('location', step, expected=loc, observed=r['loc']), info
        if r['next'] != nxt:
            return div('next command (control flow)', step, loc=loc, command=prog[loc], expected=nxt, observed=r['next']), info
        try:
            cur, stacks = parse_state(r['state'])
        except ValueError as ex:
            # the monitor cannot observe: never a verdict on the code
            return None, dict(info, aborted='state dump unreadable: %s' % ex)
        if cur != m.cur:
            return div('selected stack', step, loc=loc, command=prog[loc], expected=m.cur, observed=cur), info
        want = m.nonempty_stacks()
        if stacks != want:
            bad = sorted(k for k in set(stacks) | set(want) if stacks.get(k) != want.get(k))
            k0 = bad[0]
            return div('stack contents', step, loc=loc, command=prog[loc], stack=k0,
                       expected=C.clip(str(want.get(k0, [])), 200), observed=C.clip(str(stacks.get(k0, [])), 200)), info
        info['steps_compared'] += 1
        if mode == 'one':
            loc = nxt
        else:
            top += 1
    go, ge = take_chunks()
    if go or ge:
        return div('output after the last command', step, observed_stdout=C.clip(go), observed_stderr=C.clip(ge)), info
    if ri >= len(recs) or recs[ri]['k'] != 'end':
        return div('reference ends normally, real run does not', step,
                   next_record=(recs[ri] if ri < len(recs) else None), rc=proc.rc), info
    if proc.rc != 0:
        return div('exit status', step, expected=0, observed=proc.rc), info
    info['ending'] = 'end'
    return None, info
