"""C05 — big integers compute exactly like mathematical integers.

Events: results of the public BigNum API executed by hv_num (Display text, is_pos, is_zero, and `==`
against an expectation built with from_vec from limbs supplied by the oracle, so that a non-normalised
result is seen even where Display would hide it).  Oracle: Python int.
"""
import time
from . import common as C
from . import numlib as N

PID = 'C05'
MOD = 'hv.c05'

ISIZE_EDGE = [0, 1, -1, 2 ** 31 - 1, -(2 ** 31 - 1), 2 ** 31, -2 ** 31, 2 ** 32 - 1, -(2 ** 32 - 1), 2 ** 32, -2 ** 32,
              2 ** 32 + 1, -(2 ** 32 + 1), 2 ** 32 + 5, -2 ** 33, 2 ** 63 - 1, -(2 ** 63 - 1), -2 ** 63, 2 ** 62, 10 ** 18]


def _gcd_ok(g):
    def f(tok):
        if g == 0:
            return None if tok == 'B|0|1|1' else 'gcd of zeros must be zero'
        if tok in ('B|%d|1|0' % g, 'B|-%d|0|0' % g):
            return None
        return 'magnitude of gcd must be %d' % g
    return f


def _pair(rng, maxl):
    k = rng.random()
    a = N.rand_int(rng, maxl)
    if k < 0.08:
        return a, a
    if k < 0.12:
        return a, -a
    if k < 0.17:
        return a, 0
    if k < 0.22:
        return 0, a
    if k < 0.32:
        # different lengths
        return a, N.rand_int(rng, 1)
    if k < 0.40:
        return N.rand_int(rng, 1), a
    if k < 0.5:
        # neighbours (borrow chains across zero limbs)
        return a, a + rng.choice([-1, 1, 2 ** 32, -2 ** 32])
    if k < 0.58:
        # one operand a multiple / power of the other, or a product next to it (exact division, results that shrink by
        # several limbs, cancellation to zero or one)
        m = N.rand_int(rng, 2) or 3
        r = rng.random()
        if r < 0.3:
            return a * m, a
        if r < 0.5:
            return a * a, a
        if r < 0.7:
            return a * m + rng.choice([-1, 0, 1]), a * m
        if r < 0.85:
            return a * m, m
        return a * m + rng.choice([-1, 1]) * (abs(a) - 1 if a else 0), a
    return a, N.rand_int(rng, maxl)


def gen_cases(rng, n, tier):
    import math
    maxl = 8 if tier == 'quick' else 24
    out = []
    for _ in range(n):
        r = rng.random()
        if r < 0.07:
            v = rng.choice(ISIZE_EDGE) if rng.random() < 0.6 else rng.randint(-2 ** 63, 2 ** 63 - 1)
            out.append({'script': 'I%d bnew dup out %s beq out' % (v, N.limbs_tok(v)),
                        'expect': [N.exp_big(v), 'b|1'], 'tag': 'new', 'desc': 'BigNum::new(%d)' % v,
                        'tags': ['new>=2^32'] if abs(v) >= 2 ** 32 else [], 'trivial': abs(v) < 2 ** 31})
            continue
        if rng.random() < 0.03:
            # BOTH operands are the same object (x op x through one register): squaring, x - x, x / x, gcd(x, x), x == x
            x = N.rand_int(rng, maxl)
            op2 = rng.choice(['mul', 'mul', 'mul', 'add', 'sub', 'div', 'rem', 'eq', 'cmp'])
            if x == 0 and op2 in ('div', 'rem'):
                op2 = 'mul'
            if op2 in ('eq', 'cmp'):
                script, expect = '%s sto @0 @0 b%s out' % (N.limbs_tok(x), op2), ['b|1' if op2 == 'eq' else 'o|E']
            else:
                v = {'mul': x * x, 'add': 2 * x, 'sub': 0, 'div': 1, 'rem': 0}[op2]
                script, expect = '%s sto @0 @0 b%s dup %s beq out bispos out @0 out' % (N.limbs_tok(x), op2, N.limbs_tok(v)), ['b|1', 'b|%d' % (1 if v >= 0 else 0), N.exp_big(x)]
                if abs(x).bit_length() > 32 * 8:
                    script, expect = script[:-len(' @0 out')], expect[:-1]
            out.append({'script': script, 'expect': expect, 'tag': 'arith', 'tags': ['aliased_operands', 'op:' + op2],
                        'desc': '%s with both operands the same object' % op2, 'trivial': False})
            continue
        if rng.random() < 0.04:
            # object history: the same BigNum objects observed and mutated in place again and again (see numlib.big_history)
            out.append(N.big_history(rng, maxl=min(maxl, 6)))
            continue
        if rng.random() < 0.02:
            # very long operands (32..80 limbs) made of RUNS of equal limbs (ffffffff.., 0.., 1..): sub-quadratic
            # multiplication fast paths and long carry ripples live here; multiplication / addition only
            a, b = N.rand_runs(rng, rng.randint(32, 100)), N.rand_runs(rng, rng.randint(32, 100))
            if rng.random() < 0.3:
                a = -a
            op2 = rng.choice(['mul', 'mul', 'mulas', 'add', 'sub'])
            v = a * b if op2 in ('mul', 'mulas') else (a + b if op2 == 'add' else a - b)
            out.append({'script': '%s %s b%s %s beq out' % (N.limbs_tok(a), N.limbs_tok(b), op2, N.limbs_tok(v)), 'expect': ['b|1'],
                        'tag': 'arith', 'tags': ['op:' + op2, 'very_long_operands'], 'desc': '%s on %d/%d-limb operands' % (op2, a.bit_length() // 32 + 1, b.bit_length() // 32 + 1), 'trivial': False})
            continue
        a, b = _pair(rng, maxl)
        nl = max(a.bit_length(), b.bit_length()) // 32 + 1
        tags = ['limbs:%d' % min(nl, 25), 'signs:%s%s' % ('-' if a < 0 else '+', '-' if b < 0 else '+')]
        if a == b:
            tags.append('equal_operands')
        if a == 0 or b == 0:
            tags.append('zero_operand')
        A, B = N.limbs_tok(a), N.limbs_tok(b)
        op = rng.choice(['add', 'sub', 'mul', 'div', 'rem', 'neg', 'gcd', 'eq', 'cmp', 'addas', 'subas', 'mulas',
                         'divas', 'remas', 'minus', 'add', 'sub', 'div', 'rem', 'gcd'])
        if op in ('div', 'rem', 'divas', 'remas', 'gcd'):
            dl = 12 if tier != 'quick' else 8
            if nl > dl:
                a %= 2 ** (32 * dl)
                b %= 2 ** (32 * dl)
                A, B = N.limbs_tok(a), N.limbs_tok(b)
            if rng.random() < 0.3 and b != 0:
                # structured dividend: quotient limbs at boundaries
                q = N.rand_int(rng, 3)
                rr = rng.randint(0, abs(b) - 1) if b else 0
                a = q * b + (rr if q * b >= 0 else -rr)
                A = N.limbs_tok(a)
                tags.append('structured_dividend')
        if op in ('div', 'rem', 'divas', 'remas') and b == 0:
            b = rng.choice([1, -1, 2 ** 32, 7])
            B = N.limbs_tok(b)
        if op in ('add', 'addas'):
            v = a + b
        elif op in ('sub', 'subas'):
            v = a - b
        elif op in ('mul', 'mulas'):
            v = a * b
        elif op in ('div', 'divas'):
            v = N.trunc_div(a, b)
        elif op in ('rem', 'remas'):
            v = N.trunc_rem(a, b)
        elif op in ('neg', 'minus'):
            v = -a
        else:
            v = None
        small = v is not None and v.bit_length() <= (32 * 8 if tier == 'quick' else 32 * 12)
        if op in ('neg', 'minus'):
            script = '%s b%s dup %s %s beq out' % (A, op, 'out' if small else 'drop', N.limbs_tok(v))
            expect = ([N.exp_big(v)] if small else []) + ['b|1']
            # re-order: dup out consumes the copy first
            script = '%s b%s dup %s %s beq out' % (A, op, 'out' if small else 'drop', N.limbs_tok(v))
        elif op == 'gcd':
            g = math.gcd(a, b)
            script = '%s %s bgcd out' % (A, B)
            expect = [_gcd_ok(g)]
        elif op == 'eq':
            script = '%s %s beq out %s %s beq out' % (A, B, A, A)
            expect = ['b|%d' % (1 if a == b else 0), 'b|1']
        elif op == 'cmp':
            # partial_cmp and the four ordering operators (they may be implemented separately from partial_cmp)
            script = '%s %s bcmp out %s %s blt out %s %s ble out %s %s bgt out %s %s bge out %s %s bne out' % (A, B, A, B, A, B, A, B, A, B, A, B)
            expect = ['o|' + ('E' if a == b else ('L' if a < b else 'G'))] + ['b|%d' % (1 if x else 0) for x in (a < b, a <= b, a > b, a >= b, a != b)]
        else:
            script = '%s %s b%s dup %s %s beq out' % (A, B, op, 'out' if small else 'drop', N.limbs_tok(v))
            expect = ([N.exp_big(v)] if small else []) + ['b|1']
        tags.append('op:' + op)
        out.append({'script': script, 'expect': expect, 'tag': 'arith', 'tags': tags,
                    'desc': '%s on %d-limb operands' % (op, nl), 'trivial': nl == 1 and abs(a) < 2 ** 16 and abs(b) < 2 ** 16})
    return out


def main(tier, seed):
    t0 = time.time()
    rep = C.Reporter(PID, tier, seed)
    C.build(['num'])
    shards, per = (32, 2000) if tier == 'quick' else (160, 12500)
    bad, hist, samples, n = N.run_sharded(MOD, tier, seed, shards, per)
    for c, why in bad:
        rep.violation('num:' + c['script'], 'BigNum result differs from the mathematical integer',
                      {'script': c['script'], 'what': c['desc'], 'problem': why,
                       'replay': "echo '<script>' | %s" % C.HV_NUM})
    extra = {}
    if tier == 'thorough':
        extra = _release_slice(rep, seed)
        extra.update(_miri_slice(rep, seed))
    distinct = hist.pop('_distinct', 0)
    cov = {
        'evaluations': n, 'distinct_nontrivial': distinct,
        'rule': 'operation scripts on BigNum operands of 1..%d limbs (limbs from {0,1,2^31,2^32-2,2^32-1,...} w.p. 1/2), all sign '
                'combinations, equal/zero/neighbouring/different-length operands, structured dividends; each result observed through Display, '
                'is_pos, is_zero and == against a from_vec expectation. non-trivial = not (single small limb on both sides); distinct = by script text.'
                % (8 if tier == 'quick' else 24),
        'samples': samples, 'histogram': hist,
    }
    cov.update(extra)
    assumptions = ['Python int is the oracle', 'operands built with BigNum::from_vec + minus(), never parsed from decimal text',
                   'harness built with opt-level 2 but overflow checks and debug assertions ON; division operands capped at %d limbs (cubic cost)' % (8 if tier == 'quick' else 12)]
    minimum = {'evaluations': (n, 5000), 'aliased operands': (hist.get('aliased_operands', 0), 300), 'object histories': (hist.get('object_history', 0), 300), 'very long operands': (hist.get('very_long_operands', 0), 100), 'op:div': (hist.get('op:div', 0), 200), 'new': (hist.get('new', 0), 100)}
    return rep.finish(cov, assumptions, t0, minimum)


def _release_slice(rep, seed):
    """Release/debug can flip verdicts (overflow checks off): repeat a slice on a --release build."""
    C.build(['num_release'])
    bad, hist, samples, n = N.run_sharded(MOD, 'quick', seed + 7919, 16, 1000, binary=C.HV_NUM_REL)
    for c, why in bad:
        rep.violation('num-release:' + c['script'], 'BigNum result differs (release build)',
                      {'script': c['script'], 'what': c['desc'], 'problem': why})
    return {'release_build_evaluations': n}


def _miri_cases(rng):
    """Small-operand scripts without Display of results (rendering is a long bit-by-bit division loop that
    costs Miri ~8 s per number): results are judged through == against from_vec expectations only, plus a
    handful of one-limb renderings."""
    out = []
    for _ in range(250):
        a, b = N.rand_int(rng, 3), N.rand_int(rng, 3)
        op = rng.choice(['add', 'sub', 'mul', 'addas', 'subas', 'mulas', 'cmp', 'eq', 'neg'])
        A, B = N.limbs_tok(a), N.limbs_tok(b)
        if op in ('add', 'addas'):
            v = a + b
        elif op in ('sub', 'subas'):
            v = a - b
        elif op in ('mul', 'mulas'):
            v = a * b
        if op == 'cmp':
            script, expect = '%s %s bcmp out' % (A, B), ['o|' + ('E' if a == b else ('L' if a < b else 'G'))]
        elif op == 'eq':
            script, expect = '%s %s beq out' % (A, B), ['b|%d' % (1 if a == b else 0)]
        elif op == 'neg':
            script, expect = '%s bneg %s beq out' % (A, N.limbs_tok(-a)), ['b|1']
        else:
            script, expect = '%s %s b%s %s beq out' % (A, B, op, N.limbs_tok(v)), ['b|1']
        out.append({'script': script, 'expect': expect, 'tag': 'miri', 'desc': op})
    for _ in range(10):
        a = rng.randint(-99, 99)
        b = rng.choice([1, 2, 3, 7, -5])
        out.append({'script': '%s %s bdiv out' % (N.limbs_tok(a), N.limbs_tok(b)), 'expect': [N.exp_big(N.trunc_div(a, b))], 'tag': 'miri', 'desc': 'div'})
    for _ in range(4):
        # object histories on one-limb values (registers, in-place operations, repeated renderings of the same object)
        h = N.big_history(rng, maxl=1)
        h['tag'] = 'miri'
        out.append(h)
    return out


def _miri_slice(rep, seed):
    """Undefined-behaviour interpreter over ~300 operations (tripwire: the library has no `unsafe` today)."""
    import os
    import subprocess
    rng = C.rng_for(seed, MOD, 'miri')
    # Miri is ~4 orders of magnitude slower and Display/division are long bit-by-bit loops: keep operands
    # to one or two limbs (short scripts) and the slice small
    cases = _miri_cases(rng)
    env = dict(os.environ)
    env['CARGO_NET_OFFLINE'] = 'true'
    env['MIRIFLAGS'] = '-Zmiri-disable-isolation'
    try:
        p = subprocess.run(['cargo', '+nightly', 'miri', 'run', '--offline', '--manifest-path',
                            os.path.join(C.ROOT, 'harness', 'num', 'Cargo.toml'), '--target-dir',
                            os.path.join(C.BUILD, 'miri-num')],
                           input=('\n'.join(c['script'] for c in cases) + '\n').encode(), stdout=subprocess.PIPE,
                           stderr=subprocess.PIPE, env=env, timeout=900)
    except (subprocess.TimeoutExpired, OSError) as e:
        rep.inconc('miri slice did not complete: %s' % e)
        return {'miri_operations': 0}
    err = p.stderr.decode('utf-8', 'replace')
    if 'Undefined Behavior' in err:
        rep.violation('miri-ub', 'Miri reported undefined behaviour in the number library', {'stderr': C.clip(err, 3000)})
        return {'miri_operations': len(cases)}
    if p.returncode != 0:
        rep.inconc('miri slice failed to run (rc=%d): %s' % (p.returncode, C.clip(err[-400:], 400)))
        return {'miri_operations': 0}
    outs = p.stdout.decode('utf-8', 'replace').split('\n')
    if outs and outs[-1] == '':
        outs.pop()
    for c, why in N.judge_batch(cases, p.returncode, outs):
        rep.violation('miri:' + c['script'], 'BigNum result differs under Miri', {'script': c['script'], 'problem': why})
    unsafe = subprocess.run(['grep', '-rc', 'unsafe', os.path.join(C.REPO, 'src')], stdout=subprocess.PIPE).stdout.decode()
    n_unsafe = sum(int(x.rsplit(':', 1)[1]) for x in unsafe.split() if ':' in x)
    return {'miri_operations': len(cases), 'unsafe_occurrences_in_repo_src': n_unsafe}
