"""Infrastructure shared by all monitors: builds, child processes, sharding, verdicts, evidence."""
import atexit
import hashlib
import json
import multiprocessing
import os
import random
import resource
import shutil
import signal
import subprocess
import sys
import time

ROOT = os.path.dirname(os.path.dirname(os.path.abspath(__file__)))
REPO = os.environ.get('HV_REPO', '/repo')
BUILD = os.path.join(ROOT, 'build')
EVID = os.path.join(ROOT, 'evidence')
REPLAYS = os.path.join(EVID, 'replays')
TMPROOT = os.path.join(BUILD, 'tmp')
NPROC = int(os.environ.get('HV_PROCS', '16'))

HYEONG = os.path.join(BUILD, 'repo', 'debug', 'hyeong')
HYEONG_REL = os.path.join(BUILD, 'repo', 'release', 'hyeong')
HV_TRACE = os.path.join(BUILD, 'harness-core', 'debug', 'hv_trace')
HV_EMIT = os.path.join(BUILD, 'harness-core', 'debug', 'hv_emit')
HV_PARSE = os.path.join(BUILD, 'harness-core', 'debug', 'hv_parse')
HV_OPT = os.path.join(BUILD, 'harness-core', 'debug', 'hv_opt')
HV_NUM = os.path.join(BUILD, 'harness-num', 'debug', 'hv_num')
HV_NUM_REL = os.path.join(BUILD, 'harness-num', 'release', 'hv_num')
NUMLIB = os.path.join(BUILD, 'number', 'debug', 'libhyeong.rlib')
NUMLIB_REL = os.path.join(BUILD, 'number', 'release', 'libhyeong.rlib')

CHILD_ENV = {
    'PATH': os.environ.get('PATH', '/usr/bin:/bin'),
    'HOME': TMPROOT,
    'RUST_BACKTRACE': '0',
    'LANG': 'C.UTF-8',
    'CARGO_NET_OFFLINE': 'true',
}
for _k in ('RUSTUP_HOME', 'CARGO_HOME', 'RUSTUP_TOOLCHAIN'):
    if _k in os.environ:
        CHILD_ENV[_k] = os.environ[_k]
REAL_HOME = os.environ.get('HOME', '/root')


class Inconclusive(Exception):
    pass


# ------------------------------------------------------------------------------------------ builds
def _cargo(args, what, env_extra=None):
    env = dict(os.environ)
    env['CARGO_NET_OFFLINE'] = 'true'
    env['RUST_BACKTRACE'] = '0'
    if env_extra:
        env.update(env_extra)
    t = time.time()
    p = subprocess.run(['cargo'] + args, stdout=subprocess.PIPE, stderr=subprocess.STDOUT, env=env)
    if p.returncode != 0:
        tail = p.stdout.decode('utf-8', 'replace')[-3000:]
        raise Inconclusive('build of %s failed (cargo exit %d):\n%s' % (what, p.returncode, tail))
    return time.time() - t


def build(parts):
    """Rebuild what a check needs from /repo's CURRENT working tree (dev profile: overflow checks and
    debug assertions on). parts: subset of repo, core, num, numlib, repo_release, num_release, numlib_release."""
    os.makedirs(BUILD, exist_ok=True)
    os.makedirs(TMPROOT, exist_ok=True)
    secs = {}
    man = os.path.join(REPO, 'Cargo.toml')
    lock = os.path.join(REPO, 'Cargo.lock')
    core_lock = os.path.join(ROOT, 'harness', 'core', 'Cargo.lock')
    if 'core' in parts and os.path.exists(lock) and not os.path.exists(core_lock):
        shutil.copy(lock, core_lock)
    for part in parts:
        if part == 'repo':
            secs[part] = _cargo(['build', '--offline', '--manifest-path', man, '--target-dir',
                                 os.path.join(BUILD, 'repo')], 'hyeong (dev)')
        elif part == 'repo_release':
            secs[part] = _cargo(['build', '--offline', '--release', '--manifest-path', man, '--target-dir',
                                 os.path.join(BUILD, 'repo')], 'hyeong (release)')
        elif part == 'core':
            secs[part] = _cargo(['build', '--offline', '--manifest-path',
                                 os.path.join(ROOT, 'harness', 'core', 'Cargo.toml'), '--target-dir',
                                 os.path.join(BUILD, 'harness-core')], 'harness/core')
        elif part == 'num':
            secs[part] = _cargo(['build', '--offline', '--manifest-path',
                                 os.path.join(ROOT, 'harness', 'num', 'Cargo.toml'), '--target-dir',
                                 os.path.join(BUILD, 'harness-num')], 'harness/num')
        elif part == 'num_release':
            secs[part] = _cargo(['build', '--offline', '--release', '--manifest-path',
                                 os.path.join(ROOT, 'harness', 'num', 'Cargo.toml'), '--target-dir',
                                 os.path.join(BUILD, 'harness-num')], 'harness/num (release)')
        elif part == 'numlib':
            secs[part] = _cargo(['build', '--offline', '--lib', '--no-default-features', '--features', 'number',
                                 '--manifest-path', man, '--target-dir', os.path.join(BUILD, 'number')],
                                'number-only libhyeong (dev)')
        elif part == 'numlib_release':
            secs[part] = _cargo(['build', '--offline', '--release', '--lib', '--no-default-features',
                                 '--features', 'number', '--manifest-path', man, '--target-dir',
                                 os.path.join(BUILD, 'number')], 'number-only libhyeong (release)')
        else:
            raise ValueError(part)
    return secs


# ------------------------------------------------------------------------------------- temp dirs
_tmpdirs = []


def mktmp(tag):
    os.makedirs(TMPROOT, exist_ok=True)
    d = os.path.join(TMPROOT, '%s-%d-%d' % (tag, os.getpid(), len(_tmpdirs)))
    shutil.rmtree(d, ignore_errors=True)
    os.makedirs(d)
    _tmpdirs.append((os.getpid(), d))
    return d


def _cleanup():
    for pid, d in _tmpdirs:
        if pid == os.getpid():
            shutil.rmtree(d, ignore_errors=True)


atexit.register(_cleanup)


def sweep_stale_tmp(max_age_s=6 * 3600):
    try:
        now = time.time()
        for n in os.listdir(TMPROOT):
            p = os.path.join(TMPROOT, n)
            if now - os.path.getmtime(p) > max_age_s:
                shutil.rmtree(p, ignore_errors=True)
    except OSError:
        pass


# --------------------------------------------------------------------------------- child processes
class Proc:
    __slots__ = ('rc', 'sig', 'out', 'err', 'wall_timeout', 'cpu_killed')

    def __init__(self, rc, sig, out, err, wall_timeout, cpu_killed):
        self.rc, self.sig, self.out, self.err = rc, sig, out, err
        self.wall_timeout, self.cpu_killed = wall_timeout, cpu_killed

    @property
    def crashed(self):
        """Panic (101), abort (134) or any signal other than the CPU-limit kill."""
        if self.wall_timeout:
            return False
        if self.sig is not None and not self.cpu_killed:
            return True
        return self.rc in (101, 134) or b'panicked at' in self.err

    def outs(self):
        return self.out.decode('utf-8', 'replace')

    def errs(self):
        return self.err.decode('utf-8', 'replace')


try:
    import ctypes
    _LIBC = ctypes.CDLL(None)
except Exception:           # pragma: no cover
    _LIBC = None


def _limits(cpu):
    def f():
        resource.setrlimit(resource.RLIMIT_CPU, (cpu, cpu + 1))
        resource.setrlimit(resource.RLIMIT_CORE, (0, 0))
        os.setsid()
        if _LIBC is not None:
            try:
                _LIBC.prctl(1, signal.SIGKILL)      # PR_SET_PDEATHSIG: never outlive the monitor
            except Exception:
                pass
    return f


def run_proc(cmd, stdin=b'', cpu=20, wall=120, cwd=None, env=None, stdin_file=None):
    """Run a child with a CPU-time rlimit (the logical work bound) and a generous wall-clock watchdog
    (whose firing is only ever 'inconclusive')."""
    e = dict(CHILD_ENV)
    if env:
        e.update(env)
    try:
        p = subprocess.Popen(cmd, stdin=(stdin_file if stdin_file is not None else subprocess.PIPE),
                             stdout=subprocess.PIPE, stderr=subprocess.PIPE, cwd=cwd, env=e,
                             preexec_fn=_limits(cpu))
    except OSError as ex:
        raise Inconclusive('cannot start %r: %s' % (cmd[0], ex))
    try:
        out, err = p.communicate(None if stdin_file is not None else stdin, timeout=wall)
        wt = False
    except subprocess.TimeoutExpired:
        try:
            os.killpg(p.pid, signal.SIGKILL)
        except OSError:
            pass
        out, err = p.communicate()
        wt = True
    rc = p.returncode
    sig = -rc if rc is not None and rc < 0 else None
    cpu_killed = (not wt) and sig == signal.SIGXCPU
    if sig == signal.SIGKILL and not wt:
        # SIGKILL that this harness did not send: the kernel's out-of-memory killer (or an operator).  No program under
        # test sends it to itself; it is treated like the wall-clock watchdog: inconclusive, never a verdict.
        wt = True
    return Proc(rc, sig, out, err, wt, cpu_killed)


def run_header_split(p_out):
    """`hyeong run` prints `==> ...` header lines on stdout; the program's output starts after the
    first `==> running code\\n`. Returns (found, program_stdout_bytes)."""
    marker = b'==> running code\n'
    i = p_out.find(marker)
    if i < 0:
        return False, b''
    return True, p_out[i + len(marker):]


# ---------------------------------------------------------------------------------------- sharding
def _init_worker():
    signal.signal(signal.SIGINT, signal.SIG_IGN)


def pmap(func, items, procs=None, chunksize=1, stop_after_bad=None, is_bad=None):
    """Parallel map over worker processes. With stop_after_bad/is_bad the map stops early once that
    many results are bad (a tree that violates the property must not cost hours of CPU-limit kills);
    the results obtained so far are returned (order not preserved in that mode)."""
    procs = procs or NPROC
    if procs <= 1 or len(items) <= 1:
        return [func(x) for x in items]
    ctx = multiprocessing.get_context('fork')
    with ctx.Pool(procs, initializer=_init_worker) as pool:
        if stop_after_bad is None:
            return pool.map(func, items, chunksize)
        out = []
        bad = 0
        for r in pool.imap_unordered(func, items, chunksize):
            out.append(r)
            if is_bad(r):
                bad += 1
                if bad >= stop_after_bad:
                    pool.terminate()
                    break
        return out


def rng_for(*parts):
    """Deterministic RNG from (seed, names, indices)."""
    return random.Random(':'.join(str(p) for p in parts))


def get_seed():
    try:
        return int(os.environ.get('VERIF_SEED', '0'))
    except ValueError:
        return 0


def sha(s):
    if isinstance(s, str):
        s = s.encode('utf-8', 'surrogatepass')
    return hashlib.sha256(s).hexdigest()[:16]


# ------------------------------------------------------------------------------ verdicts / evidence
def load_known_findings():
    """-> (open: {property: [(signature, text)]}, fixed lines)"""
    opened = {}
    fixed = []
    p = os.path.join(ROOT, 'known_findings.txt')
    if os.path.exists(p):
        for line in open(p, encoding='utf-8'):
            line = line.rstrip('\n')
            if line.startswith('open:'):
                rest = line[5:].strip()
                parts = rest.split(' ', 2)
                pid = parts[0].split('=', 1)[1]
                sig = parts[1].split('=', 1)[1]
                opened.setdefault(pid, []).append((sig, parts[2] if len(parts) > 2 else ''))
            elif line.startswith('fixed:'):
                fixed.append(line)
    return opened, fixed


class Reporter:
    """Collects violations (deduplicated by signature), inconclusive cases and known findings."""

    def __init__(self, pid, tier, seed):
        self.pid, self.tier, self.seed = pid, tier, seed
        self.viol = {}          # signature -> replay dict
        self.known_hit = {}
        self.inconclusive = []
        self.known = dict(load_known_findings()[0]).get(pid, [])

    def violation(self, signature, kind, detail):
        """signature: exact, stable identification of the failing case (used for known findings)."""
        for ksig, ktext in self.known:
            if ksig == signature:
                self.known_hit[ksig] = ktext
                return
        if signature not in self.viol:
            self.viol[signature] = {'property': self.pid, 'kind': kind, 'signature': signature,
                                    'tier': self.tier, 'seed': self.seed, 'detail': detail}

    def inconc(self, what):
        if len(self.inconclusive) < 200:
            self.inconclusive.append(what)
        else:
            self.inconclusive[-1] = '... more'

    def merge(self, items):
        """items: list of ('v', signature, kind, detail) | ('i', what) produced by workers."""
        for it in items:
            if it[0] == 'v':
                self.violation(it[1], it[2], it[3])
            else:
                self.inconc(it[1])

    def finish(self, coverage, assumptions, t0, minimum=None):
        """Write evidence, print verdict lines, return the exit status.
        minimum: dict name -> (observed, required): a run that observed too little is INCONCLUSIVE."""
        os.makedirs(REPLAYS, exist_ok=True)
        lines = []
        shown = 0
        for sig, rep in sorted(self.viol.items(), key=lambda kv: (len(json.dumps(kv[1], ensure_ascii=False, default=str)), kv[0])):
            if shown >= 25:
                break       # the smallest 25 witnesses get a replay file; the total is in the evidence
            path = os.path.join(REPLAYS, '%s-%s.json' % (self.pid, sha(sig)))
            with open(path, 'w', encoding='utf-8', errors='backslashreplace') as f:
                json.dump(rep, f, ensure_ascii=False, indent=1, default=str)
            if shown < 25:
                lines.append('VIOLATION property=%s replay=%s' % (self.pid, path))
                shown += 1
        for ksig, ktext in self.known_hit.items():
            lines.append('KNOWN-FINDING: property=%s %s' % (self.pid, ktext))
        coverage = dict(coverage)
        coverage['inconclusive_cases'] = len(self.inconclusive)
        if self.inconclusive:
            coverage['inconclusive_samples'] = self.inconclusive[:10]
        coverage['violation_signatures'] = len(self.viol)
        coverage['known_findings_hit'] = len(self.known_hit)
        short = []
        if minimum:
            for name, (obs, req) in minimum.items():
                if obs < req:
                    short.append('%s=%d<%d' % (name, obs, req))
        coverage['observation_minimums'] = {k: {'observed': v[0], 'required': v[1]} for k, v in (minimum or {}).items()}
        ev = {
            'property_id': self.pid, 'tier': self.tier, 'seed': self.seed, 'level': 'exploration',
            'coverage': coverage, 'assumptions': assumptions, 'wall_s': round(time.time() - t0, 2),
            'violations': len(self.viol),
        }
        os.makedirs(EVID, exist_ok=True)
        tmp = os.path.join(EVID, '.%s.json.tmp' % self.pid)
        with open(tmp, 'w', encoding='utf-8', errors='backslashreplace') as f:
            json.dump(ev, f, ensure_ascii=False, indent=1, default=str)
        os.replace(tmp, os.path.join(EVID, '%s.json' % self.pid))
        for l in lines:
            print(l)
        if self.viol:
            print('%s: %d distinct violation signature(s); evaluations=%s' % (self.pid, len(self.viol), coverage.get('evaluations')))
            return 1
        if short:
            print('INCONCLUSIVE property=%s observed too little: %s' % (self.pid, ', '.join(short)))
            return 2
        print('%s: held on everything observed: evaluations=%s distinct_nontrivial=%s inconclusive=%d wall=%.1fs'
              % (self.pid, coverage.get('evaluations'), coverage.get('distinct_nontrivial'),
                 len(self.inconclusive), time.time() - t0))
        return 0


def add_hist(dst, src):
    for k, v in src.items():
        dst[k] = dst.get(k, 0) + v


def clip(s, n=300):
    if isinstance(s, bytes):
        s = s.decode('utf-8', 'replace')
    return s if len(s) <= n else s[:n] + '...(%d chars)' % len(s)
