"""python3 -m hv.run <Cxx> --replay evidence/replays/<file>.json — re-executes the recorded witness against the
CURRENT /repo build and prints what is observed next to what the replay file recorded."""
import json
import os
from . import common as C
from . import progcheck as P


def replay(path):
    rep = json.load(open(path, encoding='utf-8'))
    d = rep.get('detail', {})
    print('property %s  kind: %s\nsignature: %s' % (rep.get('property'), rep.get('kind'), rep.get('signature')))
    for k in ('difference', 'problem', 'divergence', 'problems'):
        if k in d:
            print('%s: %s' % (k, json.dumps(d[k], ensure_ascii=False)[:1500]))
    wd = C.mktmp('replay')
    if 'script' in d and isinstance(d['script'], str):
        C.build(['num'])
        from . import numlib as N
        rc, outs, err = N.run_hv_num([d['script']])
        print('hv_num script : %s\nobserved now  : %s' % (d['script'], outs[0] if outs else '(no output, rc=%s)' % rc))
    elif 'program' in d:
        C.build(['repo'])
        path_p = P.write_program(wd, 'p.hyeong', d['program'])
        stdin = d.get('stdin', '') or ''
        print('program: %s\nstdin  : %r' % (C.clip(d['program'], 600), stdin[:200]))
        if 'script' in d and isinstance(d['script'], list):
            p = C.run_proc([C.HYEONG, 'debug', '--color', 'never', path_p], ('\n'.join(d['script']) + '\n').encode())
            print('debugger script: %s\nexit %s\n%s' % (d['script'], p.rc, p.outs()[-1500:]))
        elif 'lines_entered' in d:
            p = C.run_proc([C.HYEONG, '--color', 'never'], ('\n'.join(d['lines_entered']) + '\n').encode())
            print('lines entered: %s\nexit %s\n%s' % (d['lines_entered'], p.rc, p.outs()[-1500:]))
        else:
            for lvl in (0, 1, 2):
                o = P.run_interp(C.HYEONG, path_p, lvl, stdin.encode('utf-8'))
                print('run -O%d: %s rc=%s stdout=%r stderr=%r' % (lvl, o.kind, o.rc, o.out[:300], o.err[:300]))
    elif 'text' in d:
        C.build(['core'])
        from . import noise
        from .c04 import expected_line
        p = C.run_proc([C.HV_PARSE], (noise.escape_record(d['text']) + '\n').encode('utf-8'))
        print('text    : %r\nexpected: %s\nobserved: %s' % (d['text'][:300], expected_line(d['text'])[0][:600], p.outs().strip()[:600]))
    else:
        print(json.dumps(d, ensure_ascii=False, indent=1)[:3000])
    return 0
