"""C04 — parsing is total and yields exactly the commands the grammar defines.

Events: parse::parse result per command (kind, syllable count, dot count, Debug and Display of the area,
line, column, raw text) from the batch harness hv_parse, or a crash; `hyeong check` exit status and row
count on a sample.  Oracle: the reference parser hv/refparse.py (tokenise + split, not a state machine).
"""
import os
import time
from . import common as C
from . import noise, refparse
from .lang import area_debug, area_display, HEARTS

PID = 'C04'
_RUN = {}


def expected_line(text):
    parsed = refparse.parse(text)
    return ';'.join('%d,%d,%d,%s,%s,%d,%d,%s' % (t, h, d, area_debug(a), area_display(a), l, c, raw)
                    for (t, h, d, a, l, c, raw) in parsed), parsed


def gen_text(rng, tier):
    """-> (kind, text)"""
    k = rng.random()
    if k < 0.001:
        # a very long stretch of operator / heart / dot characters BEFORE the first command (it has no effect), then a
        # command with a long area chain of its own: whatever is counted per command must start at the command
        npre = rng.choice([5000, 13000, 17000, 40000])
        pre = ''.join(rng.choice(['?', '!', '?!', '♥', '.', ' ', '\n']) for _ in range(npre))
        nops = rng.choice([3, 50, 1000, 4096])
        chain = ''.join(rng.choice(['?', '!']) + rng.choice(['', '', '♥', '♡']) for _ in range(nops))
        return 'huge_preamble', pre + rng.choice(['형', '혀엉..', '흑.']) + chain + rng.choice(['', ' 항.!♥'])
    if k < 0.012:
        # a special character as the VERY FIRST character of the text (byte order mark, NUL, separators, format characters),
        # commands on the same first line: it is one ordinary character with no effect - and it occupies a column
        first = rng.choice(['\ufeff', '\ufeff', '\x00', '\u3000', '\u00a0', '\u2028', '\u0085', '\r', '\u200b', '\U0010ffff', '\ufffe', '\x0b'])
        return 'special_first_char', first * rng.choice([1, 1, 2]) + noise.render_noisy(rng, noise.random_cmds(rng, 4))
    if k < 0.45:
        return 'random', noise.random_text(rng, 60 if tier == 'quick' else 200)
    if k < 0.6:
        # noisy rendering of a random command list (structured, with prefix noise)
        return 'rendered', noise.render_noisy(rng, noise.random_cmds(rng, 6))
    if k < 0.7:
        # area / dot characters before the first command
        pre = ''.join(rng.choice(list('?!.…') + HEARTS + ['엉', '가', ' ', '\n']) for _ in range(rng.randint(1, 8)))
        return 'prefix_area', pre + noise.random_text(rng, 30)
    if k < 0.8:
        # start syllables with / without a later matching end syllable
        body = ''.join(rng.choice(list('혀하흐엉앙앗읏읍윽어.?♥ \n형')) for _ in range(rng.randint(1, 25)))
        return 'starts', body
    if k < 0.87:
        # long area chain
        nops = rng.choice([10, 100, 500, 1000, 4096]) if tier != 'quick' else rng.choice([10, 50, 300, 1000])
        chain = ''.join(rng.choice(['?', '!', '?', '!'] + HEARTS[:3] + ['', ' ']) for _ in range(nops))
        return 'long_area', rng.choice(['형', '혀엉..', '흑.']) + chain + rng.choice(['', ' 항.'])
    if k < 0.93:
        # big counts
        h = rng.choice([50, 500, 5000]) if tier != 'quick' else rng.choice([50, 500, 2000])
        d = rng.choice([50, 500, 5000]) if tier != 'quick' else rng.choice([50, 500, 2000])
        return 'big_counts', '혀' + '어' * (h - 2) + '엉' + rng.choice(['.', '…', '⋮.']) * d + rng.choice(['', '?♥', '\n형'])
    if k < 0.952:
        return 'table_neighbours', noise.neighbour_text(rng, 40)
    if k < 0.975:
        # Windows line endings (and other line-ish separators) between short lines that are rich in start / end
        # syllables: locations, and the "is there an end syllable later" rule, must not depend on the separator
        sep = rng.choice(['\r\n', '\r\n', '\r\n', '\n\r', '\r', '\u2028', '\x0b', '\u0085\n'])
        lines = [''.join(rng.choice(list('혀하흐엉앙앗읏읍윽어.?♥ 형항')) for _ in range(rng.randint(0, 10))) if rng.random() < 0.75 else rng.choice(['', ' ', '\t', '   ', ' \t '])
                 for _ in range(rng.randint(2, 9))]
        return 'crlf_lines', sep.join(lines) + rng.choice(['', sep, '혀', sep + '하어'])
    # multi-line layout for locations
    lines = [noise.random_text(rng, 25).replace('\r', '') for _ in range(rng.randint(2, 8))]
    return 'multiline', '\n'.join(lines)


def _shard(k):
    tier, seed, per = _RUN['tier'], _RUN['seed'], _RUN['per']
    rng = C.rng_for(seed, PID, tier, k)
    texts = [gen_text(rng, tier) for _ in range(per)]
    items = []
    hist = {}
    data = ('\n'.join(noise.escape_record(t) for _, t in texts) + '\n').encode('utf-8')
    p = C.run_proc([C.HV_PARSE], data, cpu=120, wall=600)
    outs = p.out.decode('utf-8', 'replace').split('\n')
    if outs and outs[-1] == '':
        outs.pop()
    died = p.crashed or p.rc != 0
    chars = set()
    ncmd = 0
    keys = set()
    samples = []
    for idx, (kind, text) in enumerate(texts):
        exp, parsed = expected_line(text)
        hist['kind:' + kind] = hist.get('kind:' + kind, 0) + 1
        ncmd += len(parsed)
        chars.update(text)
        if parsed:
            keys.add(C.sha(text))
            first_start = min(i for i, ch in enumerate(text) if ch in '형항핫흣흡흑혀하흐') if any(ch in '형항핫흣흡흑혀하흐' for ch in text) else 0
            pre = text[:first_start]
            if any(ch in '?!.…⋯⋮' or ch in HEARTS for ch in pre):
                hist['area_or_dot_chars_before_first_command'] = hist.get('area_or_dot_chars_before_first_command', 0) + 1
        if idx >= len(outs):
            if died:
                items.append(('v', 'crash:' + C.sha(text), 'parser crashed (process died: rc=%s)' % p.rc,
                              {'text': text, 'stderr': C.clip(p.err, 500), 'note': 'first record without output in this batch'}))
            break
        got = outs[idx]
        if got == 'PANIC':
            items.append(('v', 'panic:' + C.sha(text), 'parser panicked', {'text': text}))
        elif got != exp:
            ge, ee = got.split(';'), exp.split(';')
            j = 0
            while j < min(len(ge), len(ee)) and ge[j] == ee[j]:
                j += 1
            items.append(('v', 'parse:' + C.sha(text), 'parse result differs from the grammar', {
                'text': text, 'kind': kind, 'first_differing_command_index': j,
                'expected': C.clip(ee[j] if j < len(ee) else '(no such command)', 300),
                'observed': C.clip(ge[j] if j < len(ge) else '(no such command)', 300),
                'expected_count': len(ee) if exp else 0, 'observed_count': len(ge) if got else 0,
                'fields': 'kind,syllables,dots,DebugArea,DisplayArea,line,column,raw'}))
        if len(samples) < 2 and parsed and len(text) < 80:
            samples.append({'text': text, 'observed': C.clip(got, 200)})
    return {'items': items, 'hist': hist, 'n': len(texts), 'ncmd': ncmd, 'chars': ''.join(sorted(chars)), 'keys': len(keys),
            'samples': samples, 'maxlen': max(len(t) for _, t in texts)}


def _check_case(i):
    """`hyeong check` must exit 0 and list one row per command."""
    tier, seed, rundir = _RUN['tier'], _RUN['seed'], _RUN['dir']
    rng = C.rng_for(seed, PID, 'check', tier, i)
    kind, text = gen_text(rng, tier)
    if '\x00' in text and False:
        pass
    _, parsed = expected_line(text)
    path = os.path.join(rundir, 'c%d_%d.hyeong' % (os.getpid(), i))
    with open(path, 'w', encoding='utf-8', newline='') as f:
        f.write(text)
    try:
        p = C.run_proc([C.HYEONG, 'check', '--color', 'never', path], b'', cpu=60)
        if p.wall_timeout or p.cpu_killed:
            return [('i', 'check watchdog on %s' % C.sha(text))]
        rows = [ln for ln in p.outs().split('\n') if ' | ' in ln]
        if p.crashed or p.rc != 0:
            return [('v', 'check-exit:' + C.sha(text), '`hyeong check` did not end with status 0',
                     {'text': text, 'rc': p.rc, 'stderr': C.clip(p.err, 500)})]
        if len(rows) != len(parsed):
            return [('v', 'check-rows:' + C.sha(text), '`hyeong check` lists a different number of commands',
                     {'text': text, 'expected_rows': len(parsed), 'observed_rows': len(rows)})]
        return []
    finally:
        try:
            os.unlink(path)
        except OSError:
            pass


def _miri_slice(rep, seed):
    """parse::parse on a few hundred short texts under Miri (undefined-behaviour tripwire) + the usual oracle."""
    from . import miri
    rng = C.rng_for(seed, PID, 'miri')
    texts = []
    while len(texts) < 300:
        kind, t = gen_text(rng, 'quick')
        if len(t) <= 60:
            texts.append(t)
    data = ('\n'.join(noise.escape_record(t) for t in texts) + '\n').encode('utf-8')
    st, out, err = miri.miri_run('hv_parse', [], data, timeout=1500)
    if st == 'ub':
        rep.violation('miri-ub', 'Miri reported undefined behaviour in the parser', {'stderr': C.clip(err, 3000)})
        return {'miri_texts': len(texts)}
    if st != 'ok':
        rep.inconc('miri slice did not complete (%s): %s' % (st, C.clip(err[-300:], 300)))
        return {'miri_texts': 0}
    outs = out.decode('utf-8', 'replace').split('\n')
    for idx, t in enumerate(texts):
        exp, _ = expected_line(t)
        if idx >= len(outs) or outs[idx] != exp:
            rep.violation('miri-parse:' + C.sha(t), 'parse result differs under Miri', {'text': t, 'expected': C.clip(exp), 'observed': C.clip(outs[idx] if idx < len(outs) else '(none)')})
    return {'miri_texts': len(texts), 'unsafe_occurrences_in_repo_src': miri.unsafe_occurrences()}


def main(tier, seed):
    t0 = time.time()
    rep = C.Reporter(PID, tier, seed)
    C.build(['repo', 'core'])
    shards, per = (32, 1500) if tier == 'quick' else (160, 12500)
    _RUN.update(tier=tier, seed=seed, per=per, dir=C.mktmp(PID))
    res = C.pmap(_shard, list(range(shards)))
    hist = {}
    n = ncmd = keys = 0
    chars = set()
    samples = []
    maxlen = 0
    for r in res:
        rep.merge(r['items'])
        C.add_hist(hist, r['hist'])
        n += r['n']
        ncmd += r['ncmd']
        keys += r['keys']
        chars.update(r['chars'])
        maxlen = max(maxlen, r['maxlen'])
        if len(samples) < 5:
            samples.extend(r['samples'][:1])
    nchk = 600 if tier == 'quick' else 20000
    for items in C.pmap(_check_case, list(range(nchk)), chunksize=8):
        rep.merge(items)
    miri_info = {}
    if tier == 'thorough':
        miri_info = _miri_slice(rep, seed)
    cov = {
        'evaluations': n + nchk, 'distinct_nontrivial': keys,
        'rule': 'texts over a biased alphabet (command/start/end syllables, other Hangul incl. U+AC00/U+D7A3 and neighbours U+ABFF/U+D7A4, '
                'dots/ellipses, ?, !, 12 hearts, whitespace incl. CR/U+0085/U+2028/U+3000, Latin, digits, astral, combining marks, NUL), '
                'noisy renderings of random command lists, area/dot characters before the first command, stray start syllables, long area '
                'chains, big counts, multi-line layouts; every field of every command compared with the reference parser. '
                'non-trivial = text that contains at least one command; distinct by text hash (per shard).',
        'samples': samples, 'histogram': hist, 'commands_parsed_and_compared': ncmd,
        'distinct_characters_exercised': len(chars), 'longest_text': maxlen,
        'check_binary_runs': nchk,
    }
    cov.update(miri_info)
    assumptions = ['reference parser hv/refparse.py encodes the grammar as stated in the property',
                   'area chains bounded by 4096 operators (deeper nesting is outside the claim)',
                   'hv_parse catches a panic per record; a dead batch process is attributed to the first record without output']
    minimum = {'texts': (n, 5000), 'commands': (ncmd, 10000),
               'prefix with area/dot chars': (hist.get('area_or_dot_chars_before_first_command', 0), 200)}
    return rep.finish(cov, assumptions, t0, minimum)
