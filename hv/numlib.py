"""Shared pieces of the number monitors (C05, C06, C07, C09): operand generators, the hv_num batch
driver, rendering of expected tokens, the canonical-form monitor.  Oracles: Python int, math.gcd,
fractions.Fraction; operands travel as limb lists (BigNum::from_vec), never through the library's own
decimal parser."""
import math
import re
import subprocess
from fractions import Fraction
from . import common as C
from .lang import NANTXT

BOUNDARY_LIMBS = [0, 1, 2 ** 31, 2 ** 32 - 2, 2 ** 32 - 1, 2 ** 31 - 1, 2 ** 16, 0xffff]


def limbs_tok(n):
    """int -> 'B+hex,hex,...' (little-endian 32-bit limbs)."""
    s = '-' if n < 0 else '+'
    n = abs(n)
    l = []
    while True:
        l.append('%x' % (n & 0xffffffff))
        n >>= 32
        if not n:
            break
    return 'B' + s + ','.join(l)


def rand_mag(rng, maxlimbs):
    """Magnitude with limbs drawn from the carry/borrow boundary set with probability 1/2."""
    nl = rng.choice([1, 1, 1, 2, 2, 3, rng.randint(1, maxlimbs), rng.randint(1, maxlimbs)])
    nl = min(nl, maxlimbs)
    v = 0
    for i in range(nl):
        limb = rng.choice(BOUNDARY_LIMBS) if rng.random() < 0.5 else rng.getrandbits(32)
        v |= limb << (32 * i)
    k = rng.random()
    if k < 0.05:
        return 0
    if k < 0.1:
        return 2 ** (32 * nl) - 1
    if k < 0.15:
        return 2 ** (32 * (nl - 1)) if nl > 1 else 1
    return v


def rand_runs(rng, nl):
    """A magnitude of nl limbs made of RUNS of equal limbs (ffffffff.., 0.., 1.., a random limb): long carry / borrow
    ripples, all-ones against sparse values."""
    v, i = 0, 0
    while i < nl:
        limb = rng.choice([0xffffffff, 0xffffffff, 0, 0, 1, 0xfffffffe, rng.getrandbits(32)])
        ln = rng.choice([1, 2, 3, 5, 8, 12, 20, 40])
        for _ in range(min(ln, nl - i)):
            v |= limb << (32 * i)
            i += 1
    if rng.random() < 0.5:
        v |= 1 << (32 * nl - 1)
    return v or 1


def rand_int(rng, maxlimbs):
    v = rand_mag(rng, maxlimbs)
    return -v if rng.random() < 0.5 else v


def exp_big(v):
    return 'B|%d|%d|%d' % (v, 1 if v >= 0 else 0, 1 if v == 0 else 0)


def fr_text(f):
    if f is None:
        return NANTXT
    if f.denominator == 1:
        return str(f.numerator)
    return '%d/%d' % (f.numerator, f.denominator)


def exp_num(f):
    if f is None:
        return 'N|%s|0|1' % NANTXT
    return 'N|%s|%d|0' % (fr_text(f), 1 if f >= 0 else 0)


def trunc_div(a, b):
    q = abs(a) // abs(b)
    return -q if (a < 0) != (b < 0) else q


def trunc_rem(a, b):
    return a - trunc_div(a, b) * b


DIGITS = '0123456789ABCDEFGHIJKLMNOPQRSTUVWXYZ'


def to_base(n, b):
    if n == 0:
        return '0'
    s = []
    m = abs(n)
    while m:
        s.append(DIGITS[m % b])
        m //= b
    if n < 0:
        s.append('-')
    return ''.join(reversed(s))


_CANON = re.compile(r'^(-?)([1-9][0-9]*|0)(?:/([1-9][0-9]*))?$')


def canonical_problem(text):
    """Canonical-form monitor for a printed Num. -> None or a description of what is wrong."""
    if text == NANTXT:
        return None
    m = _CANON.match(text)
    if not m:
        return 'not of the form [-]p or [-]p/q with positive q'
    sign, p, q = m.group(1), int(m.group(2)), m.group(3)
    if p == 0 and sign:
        return 'negative zero'
    if q is not None:
        q = int(q)
        if q == 1:
            return 'integer printed with denominator 1'
        if p == 0:
            return 'zero printed with a denominator'
        if math.gcd(p, q) != 1:
            return 'not in lowest terms'
    return None


def run_hv_num(lines, binary=None):
    """-> list of output lines (one per input line) or raises Inconclusive."""
    data = ('\n'.join(lines) + '\n').encode('utf-8')
    p = subprocess.run([binary or C.HV_NUM], input=data, stdout=subprocess.PIPE, stderr=subprocess.PIPE,
                       env=C.CHILD_ENV)
    out = p.stdout.decode('utf-8', 'replace').split('\n')
    if out and out[-1] == '':
        out.pop()
    return p.returncode, out, p.stderr.decode('utf-8', 'replace')


def judge_batch(cases, rc, outs):
    """cases: list of dicts {script, expect:[token|callable], tag, desc}. -> list of (case, problem)"""
    bad = []
    for idx, c in enumerate(cases):
        if idx >= len(outs):
            bad.append((c, 'no output for this case (harness process died: rc=%s)' % rc))
            continue
        toks = outs[idx].split('\t') if outs[idx] != '' else []
        if any(t.startswith('PANIC|') for t in toks):
            msg = [t for t in toks if t.startswith('PANIC|')][0]
            if 'HARNESS' in msg:
                raise C.Inconclusive('harness script error: %s in %r' % (msg, c['script']))
            bad.append((c, 'panic: ' + msg[6:200]))
            continue
        exp = c['expect']
        if len(toks) != len(exp):
            bad.append((c, 'expected %d results, observed %d: %r' % (len(exp), len(toks), toks[:4])))
            continue
        for k, (t, e) in enumerate(zip(toks, exp)):
            if callable(e):
                why = e(t)
                if why:
                    bad.append((c, 'result %d: %s (observed %s)' % (k, why, C.clip(t, 200))))
                    break
            elif t != e:
                bad.append((c, 'result %d: expected %s, observed %s' % (k, C.clip(e, 200), C.clip(t, 200))))
                break
    return bad


def run_sharded(modname, tier, seed, shards, per_shard, binary=None):
    """Each worker generates its own shard deterministically from (seed, tier, shard) with
    <module>.gen_cases(rng, n, tier), runs it through hv_num and judges it.
    -> (bad [(case-without-callables, problem)], merged tag histogram, samples, evaluations)"""
    jobs = [(modname, tier, seed, k, per_shard, binary) for k in range(shards)]
    res = C.pmap(_shard, jobs)
    bad, hist, samples, n = [], {}, [], 0
    for b, h, smp, cnt in res:
        bad.extend(b)
        C.add_hist(hist, h)
        if len(samples) < 8:
            samples.extend(smp[:2])
        n += cnt
    return bad, hist, samples, n


def _shard(job):
    import importlib
    modname, tier, seed, k, per_shard, binary = job
    mod = importlib.import_module(modname)
    rng = C.rng_for(seed, modname, tier, k)
    cases = mod.gen_cases(rng, per_shard, tier)
    rc, outs, err = run_hv_num([c['script'] for c in cases], binary)
    bad = judge_batch(cases, rc, outs)
    hist = {}
    for c in cases:
        hist[c['tag']] = hist.get(c['tag'], 0) + 1
        for t in c.get('tags', ()):
            hist[t] = hist.get(t, 0) + 1
    hist['_distinct'] = len({c['script'] for c in cases if not c.get('trivial')})
    smp = []
    for idx in (0, len(cases) // 2):
        if idx < len(outs):
            smp.append({'script': C.clip(cases[idx]['script'], 300), 'observed': C.clip(outs[idx], 300), 'what': cases[idx]['desc']})
    return ([({kk: v for kk, v in c.items() if kk != 'expect'}, why) for c, why in bad], hist, smp, len(cases))


class F:
    """Fraction-or-NaN arithmetic for the oracle (NaN = None, absorbing)."""

    @staticmethod
    def add(a, b):
        return None if a is None or b is None else a + b

    @staticmethod
    def mul(a, b):
        return None if a is None or b is None else a * b

    @staticmethod
    def neg(a):
        return None if a is None else -a

    @staticmethod
    def flip(a):
        return None if a is None or a == 0 else 1 / a


def frac(p, q):
    return None if q == 0 else Fraction(p, q)
