"""Shared pieces of the number monitors (C05, C06, C07, C09): operand generators, the hv_num batch
driver, rendering of expected tokens, the canonical-form monitor.  Oracles: Python int, math.gcd,
fractions.Fraction; operands travel as limb lists (BigNum::from_vec), never through the library's own
decimal parser."""
import math
import re
import subprocess
from fractions import Fraction
from . import common as C
from .lang import NANTXT

BOUNDARY_LIMBS = [0, 1, 2 ** 31, 2 ** 32 - 2, 2 ** 32 - 1, 2 ** 31 - 1, 2 ** 16, 0xffff]


def limbs_tok(n):
    """int -> 'B+hex,hex,...' (little-endian 32-bit limbs)."""
    s = '-' if n < 0 else '+'
    n = abs(n)
    l = []
    while True:
        l.append('%x' % (n & 0xffffffff))
        n >>= 32
        if not n:
            break
    return 'B' + s + ','.join(l)


def rand_mag(rng, maxlimbs):
    """Magnitude with limbs drawn from the carry/borrow boundary set with probability 1/2."""
    nl = rng.choice([1, 1, 1, 2, 2, 3, rng.randint(1, maxlimbs), rng.randint(1, maxlimbs)])
    nl = min(nl, maxlimbs)
    v = 0
    for i in range(nl):
        limb = rng.choice(BOUNDARY_LIMBS) if rng.random() < 0.5 else rng.getrandbits(32)
        v |= limb << (32 * i)
    k = rng.random()
    if k < 0.05:
        return 0
    if k < 0.1:
        return 2 ** (32 * nl) - 1
    if k < 0.15:
        return 2 ** (32 * (nl - 1)) if nl > 1 else 1
    if k < 0.23 and maxlimbs >= 3:
        # sparse: non-zero limbs at both ends (and perhaps one inside), zero limbs between them
        nl = rng.randint(3, maxlimbs)
        v = (rng.choice(BOUNDARY_LIMBS[1:] + [rng.getrandbits(32) | 1]) or 1) << (32 * (nl - 1))
        v |= rng.choice(BOUNDARY_LIMBS[1:] + [rng.getrandbits(32) | 1]) or 1
        if nl > 3 and rng.random() < 0.4:
            v |= (rng.getrandbits(32) | 1) << (32 * rng.randint(1, nl - 2))
        return v
    return v


def rand_runs(rng, nl):
    """A magnitude of nl limbs made of RUNS of equal limbs (ffffffff.., 0.., 1.., a random limb): long carry / borrow
    ripples, all-ones against sparse values."""
    v, i = 0, 0
    while i < nl:
        limb = rng.choice([0xffffffff, 0xffffffff, 0, 0, 1, 0xfffffffe, rng.getrandbits(32)])
        ln = rng.choice([1, 2, 3, 5, 8, 12, 20, 40])
        for _ in range(min(ln, nl - i)):
            v |= limb << (32 * i)
            i += 1
    if rng.random() < 0.5:
        v |= 1 << (32 * nl - 1)
    return v or 1


def rand_int(rng, maxlimbs):
    v = rand_mag(rng, maxlimbs)
    return -v if rng.random() < 0.5 else v


def exp_big(v):
    return 'B|%d|%d|%d' % (v, 1 if v >= 0 else 0, 1 if v == 0 else 0)


def fr_text(f):
    if f is None:
        return NANTXT
    if f.denominator == 1:
        return str(f.numerator)
    return '%d/%d' % (f.numerator, f.denominator)


def exp_num(f):
    if f is None:
        return 'N|%s|0|1' % NANTXT
    return 'N|%s|%d|0' % (fr_text(f), 1 if f >= 0 else 0)


def trunc_div(a, b):
    q = abs(a) // abs(b)
    return -q if (a < 0) != (b < 0) else q


def trunc_rem(a, b):
    return a - trunc_div(a, b) * b


DIGITS = '0123456789ABCDEFGHIJKLMNOPQRSTUVWXYZ'


def to_base(n, b):
    if n == 0:
        return '0'
    s = []
    m = abs(n)
    while m:
        s.append(DIGITS[m % b])
        m //= b
    if n < 0:
        s.append('-')
    return ''.join(reversed(s))


_CANON = re.compile(r'^(-?)([1-9][0-9]*|0)(?:/([1-9][0-9]*))?$')


def canonical_problem(text):
    """Canonical-form monitor for a printed Num. -> None or a description of what is wrong."""
    if text == NANTXT:
        return None
    m = _CANON.match(text)
    if not m:
        return 'not of the form [-]p or [-]p/q with positive q'
    sign, p, q = m.group(1), int(m.group(2)), m.group(3)
    if p == 0 and sign:
        return 'negative zero'
    if q is not None:
        q = int(q)
        if q == 1:
            return 'integer printed with denominator 1'
        if p == 0:
            return 'zero printed with a denominator'
        if math.gcd(p, q) != 1:
            return 'not in lowest terms'
    return None


def big_history(rng, maxl=4, judge='all'):
    """An OBJECT HISTORY over BigNum registers: the same objects are observed (rendered, compared, divided, ... by
    reference) and mutated in place (minus, op=, set_copy) again and again, never cloned or rebuilt - internal state
    that survives one operation too long (a cached rendering, a memoised quotient, a sign flag) shows up here and
    nowhere else.  -> case dict."""
    nreg = rng.randint(2, 3)
    pool = [rand_int(rng, rng.randint(1, maxl)) for _ in range(nreg)]
    if rng.random() < 0.3:
        pool[1] = pool[0] * rng.choice([1, -1, 1, 2])
    vals = list(pool)
    script = ' '.join('%s sto' % limbs_tok(v) for v in vals)
    expect, ops = [], []
    cap = 32 * 14
    for _ in range(rng.randint(4, 16)):
        i, j = rng.sample(range(nreg), 2)
        k = rng.choice(['out', 'out', 'div', 'div', 'rem', 'rem', 'add', 'sub', 'mul', 'eq', 'cmp', 'neg', 'ispos', 'tostr', 'gcd',
                        'minus', 'minus', 'minus', 'addas', 'subas', 'mulas', 'divas', 'remas', 'setcopy'])
        if k in ('div', 'rem', 'add', 'sub', 'mul', 'eq', 'cmp', 'gcd') and rng.random() < 0.2:
            j = i                      # both operands are the SAME object (x op x)
            ops.append('alias')
        a, b = vals[i], vals[j]
        if k in ('div', 'rem', 'divas', 'remas') and b == 0:
            k = 'out'
        if k in ('mul', 'mulas') and a.bit_length() + b.bit_length() > cap:
            k = 'out'
        ops.append(k)
        if k == 'out':
            script += ' @%d out' % i
            expect.append(exp_big(a))
        elif k in ('div', 'rem', 'add', 'sub', 'mul'):
            v = {'div': trunc_div, 'rem': trunc_rem, 'add': lambda x, y: x + y, 'sub': lambda x, y: x - y, 'mul': lambda x, y: x * y}[k](a, b)
            script += ' @%d @%d b%s out' % (i, j, k)
            expect.append(exp_big(v))
        elif k == 'gcd':
            g = math.gcd(a, b)
            script += ' @%d @%d bgcd %s beq out' % (i, j, limbs_tok(g))
            expect.append(lambda t: None)      # sign of the gcd is not specified; its magnitude is judged in C05's own gcd cases
        elif k == 'eq':
            script += ' @%d @%d beq out' % (i, j)
            expect.append('b|%d' % (1 if a == b else 0))
        elif k == 'cmp':
            script += ' @%d @%d bcmp out' % (i, j)
            expect.append('o|' + ('E' if a == b else ('L' if a < b else 'G')))
            opr = rng.choice(['lt', 'le', 'gt', 'ge'])
            script += ' @%d @%d b%s out' % (i, j, opr)
            expect.append('b|%d' % (1 if {'lt': a < b, 'le': a <= b, 'gt': a > b, 'ge': a >= b}[opr] else 0))
        elif k == 'neg':
            script += ' @%d bneg out' % i
            expect.append(exp_big(-a))
        elif k == 'ispos':
            script += ' @%d bispos out' % i
            expect.append('b|%d' % (1 if a >= 0 else 0))
        elif k == 'tostr':
            base = rng.choice([10, 10, 2, 16, 36, 7])
            script += ' @%d btostr:%d out' % (i, base)
            expect.append('s|' + to_base(a, base))
        elif k == 'minus':
            script += ' @%d bminus drop' % i
            vals[i] = -a
        elif k in ('addas', 'subas', 'mulas', 'divas', 'remas'):
            v = {'divas': trunc_div, 'remas': trunc_rem, 'addas': lambda x, y: x + y, 'subas': lambda x, y: x - y, 'mulas': lambda x, y: x * y}[k](a, b)
            script += ' @%d @%d b%s drop' % (i, j, k)
            vals[i] = v
        elif k == 'setcopy':
            script += ' @%d @%d bsetcopy drop' % (i, j)
            vals[i] = b
    # final renderings of every register
    for i in range(nreg):
        script += ' @%d out' % i
        expect.append(exp_big(vals[i]))
    return {'script': script, 'expect': expect, 'tag': 'history', 'tags': ['object_history'] + sorted({'hist:' + o for o in ops}),
            'desc': 'BigNum object history: ' + ' '.join(ops), 'trivial': False}


def num_history(rng, maxl=2, judge='all', bitcap=320):
    """Object history over Num registers (see big_history).  judge='cmp': only ==, partial_cmp results are judged (C07)."""
    ignore = lambda t: None
    nreg = rng.randint(2, 3)

    def leaf():
        r = rng.random()
        if r < 0.08:
            return 'nnan', None
        if r < 0.5:
            p, q = rng.randint(-12, 12), rng.randint(1, 12)
        else:
            p, q = rand_int(rng, maxl), rand_mag(rng, maxl) or 3
        return '%s %s nfrombig' % (limbs_tok(p), limbs_tok(q)), frac(p, q)
    regs = [leaf() for _ in range(nreg)]
    if rng.random() < 0.5 and regs[0][1] is not None:
        # an equal value reached by another construction (unreduced) - the pair the comparison must call equal
        v = regs[0][1]
        m = rng.choice([2, 3, -1, 7, 2 ** 32])
        regs[1] = ('%s %s nfrombig' % (limbs_tok(v.numerator * m), limbs_tok(v.denominator * m)), v)
    vals = [v for _, v in regs]
    script = ' '.join('%s sto' % sc for sc, _ in regs)
    expect, ops = [], []
    big = lambda v: v is not None and (v.numerator.bit_length() > bitcap or v.denominator.bit_length() > bitcap)
    for _ in range(rng.randint(4, 16)):
        i, j = rng.sample(range(nreg), 2)
        k = rng.choice(['out', 'out', 'out', 'eq', 'eq', 'cmp', 'cmp', 'add', 'mul', 'neg', 'floor', 'ispos', 'isnan', 'tostr',
                        'minus', 'minus', 'flip', 'addas', 'mulas', 'setcopy'])
        if k in ('eq', 'cmp', 'add', 'mul') and rng.random() < 0.2:
            j = i                      # both operands are the SAME object (x op x)
            ops.append('alias')
        a, b = vals[i], vals[j]
        if k in ('add', 'addas') and big(F.add(a, b)) or k in ('mul', 'mulas') and big(F.mul(a, b)):
            k = 'out'
        if k == 'eq' and (a is None or b is None):
            k = 'cmp'
        if k == 'floor' and (a is None or a < 0):
            k = 'out'
        ops.append(k)
        full = judge == 'all'
        if k == 'out':
            script += ' @%d out' % i
            expect.append(exp_num(a) if full else ignore)
        elif k == 'tostr':
            script += ' @%d ntostr out' % i
            expect.append('s|' + fr_text(a) if full else ignore)
        elif k == 'eq':
            script += ' @%d @%d neq out' % (i, j)
            expect.append('b|%d' % (1 if a == b else 0))
        elif k == 'cmp':
            script += ' @%d @%d ncmp out' % (i, j)
            expect.append('o|' + ('N' if a is None or b is None else ('E' if a == b else ('L' if a < b else 'G'))))
            opr = rng.choice(['lt', 'le', 'gt', 'ge'])
            script += ' @%d @%d n%s out' % (i, j, opr)
            nanp = a is None or b is None
            expect.append('b|%d' % (0 if nanp else (1 if {'lt': a < b, 'le': a <= b, 'gt': a > b, 'ge': a >= b}[opr] else 0)))
        elif k in ('add', 'mul'):
            v = F.add(a, b) if k == 'add' else F.mul(a, b)
            script += ' @%d @%d n%s out' % (i, j, k)
            expect.append(exp_num(v) if full else ignore)
        elif k == 'neg':
            script += ' @%d nneg out' % i
            expect.append(exp_num(F.neg(a)) if full else ignore)
        elif k == 'floor':
            script += ' @%d nfloor out' % i
            expect.append(exp_big(a.numerator // a.denominator) if full else ignore)
        elif k == 'ispos':
            script += ' @%d nispos out' % i
            expect.append('b|%d' % (1 if (a is not None and a >= 0) else 0) if full else ignore)
        elif k == 'isnan':
            script += ' @%d nisnan out' % i
            expect.append('b|%d' % (1 if a is None else 0) if full else ignore)
        elif k == 'minus':
            script += ' @%d nminus drop' % i
            vals[i] = F.neg(a)
        elif k == 'flip':
            script += ' @%d nflip drop' % i
            vals[i] = F.flip(a)
        elif k in ('addas', 'mulas'):
            script += ' @%d @%d n%s drop' % (i, j, k)
            vals[i] = F.add(a, b) if k == 'addas' else F.mul(a, b)
        elif k == 'setcopy':
            script += ' @%d @%d nsetcopy drop' % (i, j)
            vals[i] = b
    for i in range(nreg):
        for jx in range(i + 1, nreg):
            a, b = vals[i], vals[jx]
            script += ' @%d @%d ncmp out' % (i, jx)
            expect.append('o|' + ('N' if a is None or b is None else ('E' if a == b else ('L' if a < b else 'G'))))
        script += ' @%d out' % i
        expect.append(exp_num(vals[i]) if judge == 'all' else ignore)
    return {'script': script, 'expect': expect, 'tag': 'history', 'tags': ['object_history'] + sorted({'hist:' + o for o in ops}),
            'desc': 'Num object history: ' + ' '.join(ops), 'trivial': False}


def run_hv_num(lines, binary=None):
    """-> list of output lines (one per input line) or raises Inconclusive."""
    data = ('\n'.join(lines) + '\n').encode('utf-8')
    # a batch takes about a second on the repaired tree; the CPU limit (two orders of magnitude above that) turns an
    # arithmetic routine that never returns into an observation instead of a check that never ends
    p = C.run_proc([binary or C.HV_NUM], data, cpu=180, wall=1800)
    out = p.out.decode('utf-8', 'replace').split('\n')
    if out and out[-1] == '':
        out.pop()
    if p.cpu_killed and out and not p.out.endswith(b'\n'):
        out.pop()          # a partial last line
    rc = 'cpu-limit' if p.cpu_killed else ('watchdog' if p.wall_timeout else p.rc)
    return rc, out, p.err.decode('utf-8', 'replace')


def judge_batch(cases, rc, outs):
    """cases: list of dicts {script, expect:[token|callable], tag, desc}. -> list of (case, problem)"""
    bad = []
    for idx, c in enumerate(cases):
        if idx >= len(outs):
            if rc == 'watchdog':
                raise C.Inconclusive('wall-clock watchdog while running a batch of number scripts')
            if idx == len(outs):
                # only the first case without output is attributed (the ones behind it never ran)
                bad.append((c, 'no result for this case: %s' % ('the operation did not finish within the CPU limit (batches take about a second)'
                                                                if rc == 'cpu-limit' else 'the harness process died, rc=%s' % rc)))
            continue
        toks = outs[idx].split('\t') if outs[idx] != '' else []
        if any(t.startswith('PANIC|') for t in toks):
            msg = [t for t in toks if t.startswith('PANIC|')][0]
            if 'HARNESS' in msg:
                raise C.Inconclusive('harness script error: %s in %r' % (msg, c['script']))
            bad.append((c, 'panic: ' + msg[6:200]))
            continue
        exp = c['expect']
        if len(toks) != len(exp):
            bad.append((c, 'expected %d results, observed %d: %r' % (len(exp), len(toks), toks[:4])))
            continue
        for k, (t, e) in enumerate(zip(toks, exp)):
            if callable(e):
                why = e(t)
                if why:
                    bad.append((c, 'result %d: %s (observed %s)' % (k, why, C.clip(t, 200))))
                    break
            elif t != e:
                bad.append((c, 'result %d: expected %s, observed %s' % (k, C.clip(e, 200), C.clip(t, 200))))
                break
    return bad


def run_sharded(modname, tier, seed, shards, per_shard, binary=None):
    """Each worker generates its own shard deterministically from (seed, tier, shard) with
    <module>.gen_cases(rng, n, tier), runs it through hv_num and judges it.
    -> (bad [(case-without-callables, problem)], merged tag histogram, samples, evaluations)"""
    jobs = [(modname, tier, seed, k, per_shard, binary) for k in range(shards)]
    res = C.pmap(_shard, jobs)
    bad, hist, samples, n = [], {}, [], 0
    for b, h, smp, cnt in res:
        bad.extend(b)
        C.add_hist(hist, h)
        if len(samples) < 8:
            samples.extend(smp[:2])
        n += cnt
    return bad, hist, samples, n


def _shard(job):
    import importlib
    modname, tier, seed, k, per_shard, binary = job
    mod = importlib.import_module(modname)
    rng = C.rng_for(seed, modname, tier, k)
    cases = mod.gen_cases(rng, per_shard, tier)
    rc, outs, err = run_hv_num([c['script'] for c in cases], binary)
    bad = judge_batch(cases, rc, outs)
    hist = {}
    for c in cases:
        hist[c['tag']] = hist.get(c['tag'], 0) + 1
        for t in c.get('tags', ()):
            hist[t] = hist.get(t, 0) + 1
    hist['_distinct'] = len({c['script'] for c in cases if not c.get('trivial')})
    smp = []
    for idx in (0, len(cases) // 2):
        if idx < len(outs):
            smp.append({'script': C.clip(cases[idx]['script'], 300), 'observed': C.clip(outs[idx], 300), 'what': cases[idx]['desc']})
    return ([({kk: v for kk, v in c.items() if kk != 'expect'}, why) for c, why in bad], hist, smp, len(cases))


class F:
    """Fraction-or-NaN arithmetic for the oracle (NaN = None, absorbing)."""

    @staticmethod
    def add(a, b):
        return None if a is None or b is None else a + b

    @staticmethod
    def mul(a, b):
        return None if a is None or b is None else a * b

    @staticmethod
    def neg(a):
        return None if a is None else -a

    @staticmethod
    def flip(a):
        return None if a is None or a == 0 else 1 / a


def frac(p, q):
    return None if q == 0 else Fraction(p, q)
